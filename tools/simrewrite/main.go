// simrewrite puts runtime nondeterminism of a scratch copy of sdcio/yang-parser
// behind seams the simulator owns, without touching /repo:
//
//	R1 (mode c11): every `for k, v := range <map>` in the module's non-test code
//	   iterates over simrt.Range(site, m) instead: keys snapshotted, sorted into a
//	   canonical order, then permuted by the harness-installed hook. Entries
//	   deleted during the loop are skipped (Go's rule); entries inserted during
//	   the loop are not visited (permitted by the spec).
//	R2 (mode c06): simrt.Yield(site) as first statement of every function body
//	   and every for/range body in xpath, xpath/xutils and xpath/grammars/*.
//	R3 (mode c06): x.Lock()/x.Unlock() on sync.Mutex/RWMutex values become
//	   simrt.Lock(site,&x)/simrt.Unlock(site,&x) (TryLock loop + yield), also in
//	   defer statements; RLock/RUnlock likewise.
//
// Forms the pass does not recognise are left alone and listed; with -strict a
// leftover map range in compile, schema or parse is an error (exit 2).
package main

import (
	"bytes"
	"flag"
	"fmt"
	"go/ast"
	"go/format"
	"go/parser"
	"go/printer"
	"go/token"
	"go/types"
	"os"
	"path/filepath"
	"sort"
	"strings"

	"golang.org/x/tools/go/ast/astutil"
	"golang.org/x/tools/go/packages"
)

const modPath = "github.com/sdcio/yang-parser"
const rtPath = modPath + "/zz_verifsimrt"

var (
	mode = flag.String("mode", "c11", "c11 | c06 | scan")
	repo = flag.String("repo", "", "scratch copy of the repository (modified in place)")
	gobin = flag.String("go", "", "go binary to use for loading packages")
)

type site struct {
	ID, Rule, Pkg string
}

func main() {
	flag.Parse()
	if *repo == "" {
		fmt.Fprintln(os.Stderr, "simrewrite: -repo required")
		os.Exit(2)
	}
	env := os.Environ()
	if *gobin != "" {
		// make `go` resolve to the requested toolchain for go/packages
		dir, err := os.MkdirTemp("", "simrewrite-go-")
		if err != nil {
			fatal(err)
		}
		defer os.RemoveAll(dir)
		if err := os.Symlink(*gobin, filepath.Join(dir, "go")); err != nil {
			fatal(err)
		}
		env = append(env, "PATH="+dir+string(os.PathListSeparator)+os.Getenv("PATH"))
		os.Setenv("PATH", dir+string(os.PathListSeparator)+os.Getenv("PATH"))
	}
	cfg := &packages.Config{
		Mode: packages.NeedName | packages.NeedFiles | packages.NeedCompiledGoFiles | packages.NeedSyntax | packages.NeedTypes | packages.NeedTypesInfo | packages.NeedImports,
		Dir:  *repo,
		Env:  env,
	}
	pkgs, err := packages.Load(cfg, "./...")
	if err != nil {
		fatal(err)
	}
	bad := false
	for _, p := range pkgs {
		for _, e := range p.Errors {
			fmt.Fprintf(os.Stderr, "simrewrite: load error in %s: %v\n", p.PkgPath, e)
			bad = true
		}
	}
	if bad {
		os.Exit(2)
	}
	sort.Slice(pkgs, func(i, j int) bool { return pkgs[i].PkgPath < pkgs[j].PkgPath })

	var sites []site
	var skipped []string
	var yieldFiles []string // files that get R2 yields in a second, purely textual pass
	// c11 mode: does the compiler start goroutines of its own? (the pinned tree does not). If so its
	// packages also get R2 yields, R3 lock/Once/WaitGroup wrappers and R4 goroutine/channel operations,
	// and the world runs every compile under the tape-driven scheduler.
	concurrentCompile := false
	if *mode == "c11" {
		for _, p := range pkgs {
			rel := strings.TrimPrefix(strings.TrimPrefix(p.PkgPath, modPath), "/")
			if rel != "compile" && rel != "schema" {
				continue
			}
			for i, f := range p.Syntax {
				if strings.HasSuffix(p.CompiledGoFiles[i], "_test.go") {
					continue
				}
				ast.Inspect(f, func(n ast.Node) bool {
					if _, ok := n.(*ast.GoStmt); ok {
						concurrentCompile = true
					}
					return !concurrentCompile
				})
			}
		}
	}
	changed := map[string]*ast.File{}
	fsets := map[string]*token.FileSet{}
	for _, p := range pkgs {
		rel := strings.TrimPrefix(strings.TrimPrefix(p.PkgPath, modPath), "/")
		if strings.HasPrefix(rel, "zz_verifsimrt") {
			continue
		}
		for i, f := range p.Syntax {
			name := p.CompiledGoFiles[i]
			if strings.HasSuffix(name, "_test.go") {
				continue
			}
			relf, _ := filepath.Rel(*repo, name)
			scanUnsimulated(p, f, relf)
			touched := false
			switch *mode {
			case "c11", "scan":
				n, sk := rewriteMapRanges(p, f, relf, &sites, *mode == "scan")
				touched = n > 0
				skipped = append(skipped, sk...)
				if concurrentCompile && (rel == "compile" || rel == "schema") {
					n2, sk2 := rewriteConcurrency(p, f, relf, &sites)
					for _, x := range sk2 {
						concSkipped = append(concSkipped, x)
					}
					n2 += rewriteLocks(p, f, relf, &sites)
					touched = touched || n2 > 0
					yieldFiles = append(yieldFiles, name)
				}
			case "c07":
				if rel == "parse" {
					n, sk := rewriteConcurrency(p, f, relf, &sites)
					skipped = append(skipped, sk...)
					n += rewriteLocks(p, f, relf, &sites) // locks and Once.Do between lexer goroutine and parser (none on the pinned tree)
					touched = n > 0
					yieldFiles = append(yieldFiles, name)
				}
			case "c06":
				if rel == "xpath" || strings.HasPrefix(rel, "xpath/xutils") || strings.HasPrefix(rel, "xpath/grammars/") {
					if strings.Contains(rel, "lexertest") {
						continue
					}
					n := rewriteLocks(p, f, relf, &sites)
					touched = n > 0
					yieldFiles = append(yieldFiles, name)
				}
			}
			if touched {
				if mapsRewritten[relf] && !astutil.UsesImport(f, "maps") {
					astutil.DeleteImport(p.Fset, f, "maps")
				}
				astutil.AddNamedImport(p.Fset, f, "verifsimrt", rtPath)
				changed[name] = f
				fsets[name] = p.Fset
			}
		}
	}
	if *mode != "scan" {
		names := make([]string, 0, len(changed))
		for n := range changed {
			names = append(names, n)
		}
		sort.Strings(names)
		for _, n := range names {
			var buf bytes.Buffer
			if err := format.Node(&buf, fsets[n], changed[n]); err != nil {
				var raw bytes.Buffer
				printer.Fprint(&raw, fsets[n], changed[n])
				os.WriteFile(n+".simrewrite-failed", raw.Bytes(), 0o644)
				fatal(fmt.Errorf("format %s: %v (raw output kept next to the file)", n, err))
			}
			if err := os.WriteFile(n, buf.Bytes(), 0o644); err != nil {
				fatal(err)
			}
		}
		stmtYields = *mode == "c06"
		sort.Strings(yieldFiles)
		for _, n := range yieldFiles {
			relf, _ := filepath.Rel(*repo, n)
			if err := insertYieldsText(n, relf, &sites); err != nil {
				fatal(fmt.Errorf("yields in %s: %v", n, err))
			}
		}
		if err := writeRuntime(filepath.Join(*repo, "zz_verifsimrt")); err != nil {
			fatal(err)
		}
		flags := fmt.Sprintf("package simrt\n\n// ConcurrentCompile: the compiler of the tree under test starts goroutines of its own and simrewrite gave all of its concurrency constructs a seam.\nconst ConcurrentCompile = %v\n", concurrentCompile && len(concSkipped) == 0)
		if err := os.WriteFile(filepath.Join(*repo, "zz_verifsimrt", "flags.go"), []byte(flags), 0o644); err != nil {
			fatal(err)
		}
	}
	count := map[string]int{}
	for _, s := range sites {
		count[s.Rule+" "+s.Pkg]++
		fmt.Printf("SITE %s %s\n", s.Rule, s.ID)
	}
	keys := make([]string, 0, len(count))
	for k := range count {
		keys = append(keys, k)
	}
	sort.Strings(keys)
	for _, k := range keys {
		fmt.Printf("COUNT %s %d\n", k, count[k])
	}
	for _, s := range skipped {
		fmt.Printf("UNREWRITTEN %s\n", s)
	}
	if concurrentCompile {
		if len(concSkipped) == 0 {
			fmt.Println("CONCURRENT compile simulated")
		} else {
			fmt.Printf("CONCURRENT compile unsimulated %s\n", strings.Join(concSkipped, "; "))
		}
	}
	// a construct every occurrence of which was given a seam by R4 is not "unsimulated" in this mode
	var left []string
	for _, u := range unsim {
		all := len(unsimPos[u]) > 0
		for _, ps := range unsimPos[u] {
			if !handledPos[ps] {
				all = false
			}
		}
		if !all {
			left = append(left, u)
		}
	}
	unsim = left
	sort.Strings(unsim)
	for i, u := range unsim {
		if i == 0 || u != unsim[i-1] {
			fmt.Printf("UNSIM %s\n", u)
		}
	}
	if *mode == "c07" {
		skipped = append(skipped, condInParse...)
	}
	if len(skipped) > 0 && *mode == "c07" {
		fmt.Fprintln(os.Stderr, "simrewrite: concurrency constructs the schedule mode cannot simulate:", strings.Join(skipped, "; "))
		os.Exit(3)
	}
	if len(skipped) > 0 && *mode == "c11" {
		for _, s := range skipped {
			if strings.HasPrefix(s, "compile/") || strings.HasPrefix(s, "schema/") || strings.HasPrefix(s, "parse/") {
				fmt.Fprintln(os.Stderr, "simrewrite: map range of an unsupported form in compile/schema/parse; cannot claim coverage:", s)
				os.Exit(2)
			}
		}
	}
}

// scanUnsimulated lists constructs that bring in nondeterminism which the
// simulator has no seam for in the given package (the worlds compare the list
// with a committed baseline and say so when the tree under test has new ones).
var unsim []string
var condInParse []string
var mapsRewritten = map[string]bool{} // files in which a maps.Keys/Values/All call was replaced (the import may have become unused)
var concSkipped []string // concurrency constructs in compile/schema that R4 could not rewrite (c11 mode)
var unsimPos = map[string][]string{} // entry -> source positions of its occurrences
var handledPos = map[string]bool{}   // positions of select statements R4 rewrote

func scanUnsimulated(p *packages.Package, f *ast.File, relf string) {
	rel := pkgRel(p)
	fnName := func(n ast.Node) string {
		path, _ := astutil.PathEnclosingInterval(f, n.Pos(), n.End())
		for _, x := range path {
			if fd, ok := x.(*ast.FuncDecl); ok {
				return fd.Name.Name
			}
		}
		return "?"
	}
	add := func(kind string, n ast.Node) {
		u := fmt.Sprintf("%s %s.%s", kind, rel, fnName(n))
		unsim = append(unsim, u)
		unsimPos[u] = append(unsimPos[u], pos(p, relf, n))
	}
	ast.Inspect(f, func(n ast.Node) bool {
		switch x := n.(type) {
		case *ast.GoStmt:
			add("go-statement", x)
		case *ast.SelectStmt:
			add("select", x)
		case *ast.CallExpr:
			if sel, ok := x.Fun.(*ast.SelectorExpr); ok {
				if selection := p.TypesInfo.Selections[sel]; selection != nil && (sel.Sel.Name == "MapKeys" || sel.Sel.Name == "MapRange") {
					if fn, ok := selection.Obj().(*types.Func); ok && fn.Pkg() != nil && fn.Pkg().Path() == "reflect" {
						add("reflect."+sel.Sel.Name, x) // map order through reflection
					}
				}
				if id, ok := sel.X.(*ast.Ident); ok {
					if pn, ok := p.TypesInfo.Uses[id].(*types.PkgName); ok {
						full := pn.Imported().Path() + "." + sel.Sel.Name
						switch full {
						case "runtime.SetFinalizer", "runtime.AddCleanup", "time.Now", "time.Since", "time.After", "time.Sleep", "time.NewTimer", "time.AfterFunc", "time.Tick",
							"os.Getenv", "os.Hostname", "os.Getpid", "os.Open", "os.Stat", "os.ReadFile", "os.ReadDir", "io/ioutil.ReadFile", "io/ioutil.ReadDir", "plugin.Open",
							"runtime.GC", "runtime.NumGoroutine", "runtime.NumCPU", "runtime.GOMAXPROCS":
							add(full, x)
						}
						if strings.HasPrefix(full, "golang.org/x/exp/maps.") && (sel.Sel.Name == "Keys" || sel.Sel.Name == "Values") {
							add(full, x) // slices in map order
						}
						if strings.HasPrefix(full, "math/rand.") || strings.HasPrefix(full, "math/rand/v2.") || strings.HasPrefix(full, "crypto/rand.") {
							add(full, x)
						}
					}
				}
			}
		case *ast.CompositeLit, *ast.ValueSpec, *ast.Field:
			// declarations of sync.WaitGroup / sync.Map / sync.Once / sync.Cond / sync.Pool values
			var te ast.Expr
			switch y := x.(type) {
			case *ast.CompositeLit:
				te = y.Type
			case *ast.ValueSpec:
				te = y.Type
			case *ast.Field:
				te = y.Type
			}
			if te != nil {
				if tv, ok := p.TypesInfo.Types[te]; ok {
					ts := tv.Type.String()
					switch ts {
					case "sync.WaitGroup", "sync.Map", "sync.Once", "sync.Cond", "sync.Pool", "*sync.Cond":
						if ts == "sync.Once" && (*mode == "c06" || *mode == "c07") {
							break // rule R3 gives Once.Do a seam in these modes
						}
						if strings.HasSuffix(ts, "sync.Cond") && *mode == "c07" && rel == "parse" {
							// a condition variable between lexer goroutine and parser: no seam, so no schedule mode for this tree
							condInParse = append(condInParse, pos(p, relf, x)+" (sync.Cond)")
						}
						add("decl:"+ts, x)
					}
					if strings.HasPrefix(ts, "chan ") || strings.HasPrefix(ts, "<-chan ") || strings.HasPrefix(ts, "chan<- ") {
						add("decl:chan", x)
					}
				}
			}
		}
		return true
	})
}

func fatal(err error) {
	fmt.Fprintln(os.Stderr, "simrewrite:", err)
	os.Exit(2)
}

func pos(p *packages.Package, relf string, n ast.Node) string {
	ps := p.Fset.Position(n.Pos())
	return fmt.Sprintf("%s:%d:%d", relf, ps.Line, ps.Column)
}

func pkgRel(p *packages.Package) string {
	return strings.TrimPrefix(strings.TrimPrefix(p.PkgPath, modPath), "/")
}

// ---------------------------------------------------------------------------
// R1

func rewriteMapRanges(p *packages.Package, f *ast.File, relf string, sites *[]site, scanOnly bool) (n int, skipped []string) {
	ast.Inspect(f, func(node ast.Node) bool {
		// maps.Keys(m) / maps.Values(m) / maps.All(m) (package "maps" of the standard library): iterators in
		// map order, wherever they are used (range, slices.Collect, slices.Sorted ...)
		if call, ok := node.(*ast.CallExpr); ok && len(call.Args) == 1 {
			if sel, ok := call.Fun.(*ast.SelectorExpr); ok {
				if id, ok := sel.X.(*ast.Ident); ok {
					if pn, ok := p.TypesInfo.Uses[id].(*types.PkgName); ok && pn.Imported().Path() == "maps" {
						if h := map[string]string{"Keys": "MapKeys", "Values": "MapValues", "All": "MapAll"}[sel.Sel.Name]; h != "" {
							sid := pos(p, relf, call)
							*sites = append(*sites, site{ID: sid, Rule: "R1", Pkg: pkgRel(p)})
							n++
							if !scanOnly {
								call.Fun = &ast.SelectorExpr{X: ast.NewIdent("verifsimrt"), Sel: ast.NewIdent(h)}
								call.Args = []ast.Expr{&ast.BasicLit{Kind: token.STRING, Value: fmt.Sprintf("%q", sid)}, call.Args[0]}
								mapsRewritten[relf] = true
							}
						}
					}
				}
			}
			return true
		}
		rs, ok := node.(*ast.RangeStmt)
		if !ok {
			return true
		}
		tv, ok := p.TypesInfo.Types[rs.X]
		if !ok {
			return true
		}
		if _, isMap := tv.Type.Underlying().(*types.Map); !isMap {
			return true
		}
		id := pos(p, relf, rs)
		if rs.Tok != token.DEFINE && !(rs.Key == nil && rs.Value == nil) {
			skipped = append(skipped, id+" (assignment form)")
			return true
		}
		keyName, valName := "", ""
		if rs.Key != nil {
			k, ok := rs.Key.(*ast.Ident)
			if !ok {
				skipped = append(skipped, id+" (non-identifier key)")
				return true
			}
			keyName = k.Name
		}
		if rs.Value != nil {
			v, ok := rs.Value.(*ast.Ident)
			if !ok {
				skipped = append(skipped, id+" (non-identifier value)")
				return true
			}
			valName = v.Name
		}
		*sites = append(*sites, site{ID: id, Rule: "R1", Pkg: pkgRel(p)})
		n++
		if scanOnly {
			return true
		}
		ent := ast.NewIdent("verifsimrtE")
		var pre []ast.Stmt
		if keyName != "" && keyName != "_" {
			pre = append(pre, &ast.AssignStmt{Lhs: []ast.Expr{ast.NewIdent(keyName)}, Tok: token.DEFINE, Rhs: []ast.Expr{&ast.SelectorExpr{X: ent, Sel: ast.NewIdent("K")}}})
		}
		vn := "_"
		if valName != "" {
			vn = valName
		}
		pre = append(pre, &ast.AssignStmt{
			Lhs: []ast.Expr{ast.NewIdent(vn), ast.NewIdent("verifsimrtOK")}, Tok: token.DEFINE,
			Rhs: []ast.Expr{&ast.CallExpr{Fun: &ast.SelectorExpr{X: ent, Sel: ast.NewIdent("Get")}}},
		})
		pre = append(pre, &ast.IfStmt{
			Cond: &ast.UnaryExpr{Op: token.NOT, X: ast.NewIdent("verifsimrtOK")},
			Body: &ast.BlockStmt{List: []ast.Stmt{&ast.BranchStmt{Tok: token.CONTINUE}}},
		})
		rs.Body.List = append(pre, rs.Body.List...)
		rs.X = &ast.CallExpr{
			Fun:  &ast.SelectorExpr{X: ast.NewIdent("verifsimrt"), Sel: ast.NewIdent("Range")},
			Args: []ast.Expr{&ast.BasicLit{Kind: token.STRING, Value: fmt.Sprintf("%q", id)}, rs.X},
		}
		rs.Key = ast.NewIdent("_")
		rs.Value = ent
		rs.Tok = token.DEFINE
		return true
	})
	return
}

// ---------------------------------------------------------------------------
// R3

func isMutex(t types.Type) (bool, bool) {
	if ptr, ok := t.(*types.Pointer); ok {
		t = ptr.Elem()
	}
	named, ok := t.(*types.Named)
	if !ok || named.Obj().Pkg() == nil || named.Obj().Pkg().Path() != "sync" {
		return false, false
	}
	switch named.Obj().Name() {
	case "Mutex":
		return true, false
	case "RWMutex":
		return true, true
	}
	return false, false
}

func rewriteLocks(p *packages.Package, f *ast.File, relf string, sites *[]site) int {
	n := 0
	astutil.Apply(f, func(c *astutil.Cursor) bool {
		call, ok := c.Node().(*ast.CallExpr)
		if !ok {
			return true
		}
		sel, ok := call.Fun.(*ast.SelectorExpr)
		if !ok {
			return true
		}
		if sel.Sel.Name == "Do" && len(call.Args) == 1 {
			// sync.(*Once).Do(f) -> verifsimrt.OnceDo(site, &once, f): a second caller parks in the
			// scheduler instead of blocking inside the real Once while it holds the baton
			if selection := p.TypesInfo.Selections[sel]; selection != nil {
				if fn, ok := selection.Obj().(*types.Func); ok && fn.Pkg() != nil && fn.Pkg().Path() == "sync" {
					if recv := fn.Type().(*types.Signature).Recv(); recv != nil && strings.HasSuffix(recv.Type().String(), "sync.Once") {
						if tv, ok := p.TypesInfo.Types[sel.X]; ok {
							id := pos(p, relf, call)
							*sites = append(*sites, site{ID: id, Rule: "R3", Pkg: pkgRel(p)})
							n++
							var arg ast.Expr = sel.X
							if _, isPtr := tv.Type.Underlying().(*types.Pointer); !isPtr {
								arg = &ast.UnaryExpr{Op: token.AND, X: sel.X}
							}
							// an embedded sync.Once reached through its outer struct: take the field explicitly
							if !strings.HasSuffix(strings.TrimPrefix(tv.Type.String(), "*"), "sync.Once") {
								arg = &ast.UnaryExpr{Op: token.AND, X: &ast.SelectorExpr{X: sel.X, Sel: ast.NewIdent("Once")}}
							}
							f := call.Args[0]
							call.Fun = &ast.SelectorExpr{X: ast.NewIdent("verifsimrt"), Sel: ast.NewIdent("OnceDo")}
							call.Args = []ast.Expr{&ast.BasicLit{Kind: token.STRING, Value: fmt.Sprintf("%q", id)}, arg, f}
						}
					}
				}
			}
			return true
		}
		if wh := map[string]string{"Add": "WGAdd", "Done": "WGDone", "Wait": "WGWait", "Go": "WGGo"}[sel.Sel.Name]; wh != "" {
			if selection := p.TypesInfo.Selections[sel]; selection != nil {
				if fn, ok := selection.Obj().(*types.Func); ok && fn.Pkg() != nil && fn.Pkg().Path() == "sync" {
					if recv := fn.Type().(*types.Signature).Recv(); recv != nil && strings.HasSuffix(recv.Type().String(), "sync.WaitGroup") {
						if tv, ok := p.TypesInfo.Types[sel.X]; ok && strings.HasSuffix(strings.TrimPrefix(tv.Type.String(), "*"), "sync.WaitGroup") {
							id := pos(p, relf, call)
							*sites = append(*sites, site{ID: id, Rule: "R3", Pkg: pkgRel(p)})
							n++
							var arg ast.Expr = sel.X
							if _, isPtr := tv.Type.Underlying().(*types.Pointer); !isPtr {
								arg = &ast.UnaryExpr{Op: token.AND, X: sel.X}
							}
							rest := call.Args
							call.Fun = &ast.SelectorExpr{X: ast.NewIdent("verifsimrt"), Sel: ast.NewIdent(wh)}
							call.Args = append([]ast.Expr{&ast.BasicLit{Kind: token.STRING, Value: fmt.Sprintf("%q", id)}, arg}, rest...)
							return true
						}
					}
				}
			}
		}
		if len(call.Args) != 0 {
			return true
		}
		helper := map[string]string{"Lock": "LockL", "Unlock": "UnlockL", "RLock": "RLockL", "RUnlock": "RUnlockL"}[sel.Sel.Name]
		if helper == "" {
			return true
		}
		// the method must be sync.(*Mutex).X or sync.(*RWMutex).X — called directly or promoted
		// through an embedded field (struct{ sync.Mutex; ... })
		selection := p.TypesInfo.Selections[sel]
		if selection == nil {
			return true
		}
		fn, ok := selection.Obj().(*types.Func)
		if !ok || fn.Pkg() == nil || fn.Pkg().Path() != "sync" {
			return true
		}
		recv := fn.Type().(*types.Signature).Recv()
		if recv == nil {
			return true
		}
		if isM, _ := isMutex(recv.Type()); !isM {
			return true
		}
		tv, ok := p.TypesInfo.Types[sel.X]
		if !ok {
			return true
		}
		id := pos(p, relf, call)
		*sites = append(*sites, site{ID: id, Rule: "R3", Pkg: pkgRel(p)})
		n++
		var arg ast.Expr = sel.X
		if _, isPtr := tv.Type.Underlying().(*types.Pointer); !isPtr {
			arg = &ast.UnaryExpr{Op: token.AND, X: sel.X}
		}
		call.Fun = &ast.SelectorExpr{X: ast.NewIdent("verifsimrt"), Sel: ast.NewIdent(helper)}
		call.Args = []ast.Expr{&ast.BasicLit{Kind: token.STRING, Value: fmt.Sprintf("%q", id)}, arg}
		return true
	}, nil)
	return n
}

// ---------------------------------------------------------------------------
// R4 (mode c07): goroutine creation and channel operations

func isChan(p *packages.Package, e ast.Expr) bool {
	tv, ok := p.TypesInfo.Types[e]
	if !ok {
		return false
	}
	_, is := tv.Type.Underlying().(*types.Chan)
	return is
}

func simCall(name, id string, args ...ast.Expr) *ast.CallExpr {
	return &ast.CallExpr{
		Fun:  &ast.SelectorExpr{X: ast.NewIdent("verifsimrt"), Sel: ast.NewIdent(name)},
		Args: append([]ast.Expr{&ast.BasicLit{Kind: token.STRING, Value: fmt.Sprintf("%q", id)}}, args...),
	}
}

// rewriteSelect turns
//
//	select { case ch <- v: A; case x, ok := <-ch2: B; default: C }
//
// into
//
//	switch verifsimrtI, verifsimrtV, verifsimrtOK2 := verifsimrt.Select(site, true,
//	        verifsimrt.SendCase(ch, v), verifsimrt.RecvCase(ch2)); verifsimrtI {
//	case 0: _, _ = verifsimrtV, verifsimrtOK2; A
//	case 1: _, _ = verifsimrtV, verifsimrtOK2; x, ok := verifsimrt.As(ch2, verifsimrtV), verifsimrtOK2; B
//	case -1: _, _ = verifsimrtV, verifsimrtOK2; C
//	}
//
// Channel expressions are evaluated twice (once for the case, once for As): only
// side-effect-free channel expressions (identifiers, selectors) are accepted.
func rewriteSelect(p *packages.Package, relf string, sel *ast.SelectStmt, add func(ast.Node, string) string) (*ast.SwitchStmt, string) {
	pure := func(e ast.Expr) bool {
		ok := true
		ast.Inspect(e, func(n ast.Node) bool {
			switch n.(type) {
			case *ast.CallExpr, *ast.UnaryExpr, *ast.IndexExpr:
				ok = false
			}
			return ok
		})
		return ok
	}
	id := add(sel, "select")
	var cases []ast.Expr
	var clauses []ast.Stmt
	hasDefault := false
	use := &ast.AssignStmt{Lhs: []ast.Expr{ast.NewIdent("_"), ast.NewIdent("_")}, Tok: token.ASSIGN, Rhs: []ast.Expr{ast.NewIdent("verifsimrtV"), ast.NewIdent("verifsimrtOK2")}}
	for _, st := range sel.Body.List {
		cc := st.(*ast.CommClause)
		body := append([]ast.Stmt{use}, cc.Body...)
		if cc.Comm == nil {
			hasDefault = true
			clauses = append(clauses, &ast.CaseClause{List: []ast.Expr{&ast.UnaryExpr{Op: token.SUB, X: &ast.BasicLit{Kind: token.INT, Value: "1"}}}, Body: body})
			continue
		}
		idx := &ast.BasicLit{Kind: token.INT, Value: fmt.Sprint(len(cases))}
		switch cm := cc.Comm.(type) {
		case *ast.SendStmt:
			if !pure(cm.Chan) {
				return nil, "channel expression with side effects"
			}
			cases = append(cases, &ast.CallExpr{Fun: &ast.SelectorExpr{X: ast.NewIdent("verifsimrt"), Sel: ast.NewIdent("SendCase")}, Args: []ast.Expr{cm.Chan, cm.Value}})
		case *ast.ExprStmt:
			u, ok := cm.X.(*ast.UnaryExpr)
			if !ok || u.Op != token.ARROW || !pure(u.X) {
				return nil, "unsupported receive clause"
			}
			cases = append(cases, &ast.CallExpr{Fun: &ast.SelectorExpr{X: ast.NewIdent("verifsimrt"), Sel: ast.NewIdent("RecvCase")}, Args: []ast.Expr{u.X}})
		case *ast.AssignStmt:
			if len(cm.Rhs) != 1 || len(cm.Lhs) > 2 {
				return nil, "unsupported receive clause"
			}
			u, ok := cm.Rhs[0].(*ast.UnaryExpr)
			if !ok || u.Op != token.ARROW || !pure(u.X) {
				return nil, "unsupported receive clause"
			}
			cases = append(cases, &ast.CallExpr{Fun: &ast.SelectorExpr{X: ast.NewIdent("verifsimrt"), Sel: ast.NewIdent("RecvCase")}, Args: []ast.Expr{u.X}})
			rhs := []ast.Expr{&ast.CallExpr{Fun: &ast.SelectorExpr{X: ast.NewIdent("verifsimrt"), Sel: ast.NewIdent("As")}, Args: []ast.Expr{u.X, ast.NewIdent("verifsimrtV")}}}
			if len(cm.Lhs) == 2 {
				rhs = append(rhs, ast.NewIdent("verifsimrtOK2"))
			}
			asg := &ast.AssignStmt{Lhs: cm.Lhs, Tok: cm.Tok, Rhs: rhs}
			body = append([]ast.Stmt{use, asg}, cc.Body...)
		default:
			return nil, "unsupported clause"
		}
		clauses = append(clauses, &ast.CaseClause{List: []ast.Expr{idx}, Body: body})
	}
	hd := "false"
	if hasDefault {
		hd = "true"
	}
	call := &ast.CallExpr{
		Fun:  &ast.SelectorExpr{X: ast.NewIdent("verifsimrt"), Sel: ast.NewIdent("Select")},
		Args: append([]ast.Expr{&ast.BasicLit{Kind: token.STRING, Value: fmt.Sprintf("%q", id)}, ast.NewIdent(hd)}, cases...),
	}
	return &ast.SwitchStmt{
		Init: &ast.AssignStmt{Lhs: []ast.Expr{ast.NewIdent("verifsimrtI"), ast.NewIdent("verifsimrtV"), ast.NewIdent("verifsimrtOK2")}, Tok: token.DEFINE, Rhs: []ast.Expr{call}},
		Tag:  ast.NewIdent("verifsimrtI"),
		Body: &ast.BlockStmt{List: clauses},
	}, ""
}

func rewriteConcurrency(p *packages.Package, f *ast.File, relf string, sites *[]site) (n int, skipped []string) {
	add := func(node ast.Node, kind string) string {
		id := pos(p, relf, node) + ":" + kind
		*sites = append(*sites, site{ID: id, Rule: "R4", Pkg: pkgRel(p)})
		n++
		return id
	}
	// (astutil.Apply does not walk a node that was put in by Replace: the parts of the old node that the
	// replacement re-uses — the body of a range loop or of a select clause, the call of a go statement —
	// are rewritten first, by applying pre to them explicitly)
	var pre func(c *astutil.Cursor) bool
	pre = func(c *astutil.Cursor) bool {
		switch x := c.Node().(type) {
		case *ast.SelectStmt:
			for _, cl := range x.Body.List {
				if cc, ok := cl.(*ast.CommClause); ok {
					for i, st := range cc.Body {
						cc.Body[i] = astutil.Apply(st, pre, nil).(ast.Stmt)
					}
				}
			}
			sw, why := rewriteSelect(p, relf, x, add)
			if sw == nil {
				skipped = append(skipped, pos(p, relf, x)+" (select statement: "+why+")")
				return false
			}
			handledPos[pos(p, relf, x)] = true
			c.Replace(sw)
			return false
		case *ast.GoStmt:
			id := add(x, "go")
			call := astutil.Apply(x.Call, pre, nil).(*ast.CallExpr)
			c.Replace(&ast.ExprStmt{X: simCall("Go", id, &ast.FuncLit{
				Type: &ast.FuncType{Params: &ast.FieldList{}},
				Body: &ast.BlockStmt{List: []ast.Stmt{&ast.ExprStmt{X: call}}},
			})})
			return false
		case *ast.SendStmt:
			if isChan(p, x.Chan) {
				id := add(x, "send")
				val := astutil.Apply(x.Value, pre, nil).(ast.Expr)
				c.Replace(&ast.ExprStmt{X: simCall("Send", id, x.Chan, val)})
				return false
			}
		case *ast.RangeStmt:
			if isChan(p, x.X) {
				if x.Value != nil || (x.Key != nil && x.Tok != token.DEFINE) {
					skipped = append(skipped, pos(p, relf, x)+" (range over channel, unsupported form)")
					return false
				}
				id := add(x, "range")
				astutil.Apply(x.Body, pre, nil)
				key := ast.Expr(ast.NewIdent("_"))
				if x.Key != nil {
					key = x.Key
				}
				recv := &ast.AssignStmt{Lhs: []ast.Expr{key, ast.NewIdent("verifsimrtOK")}, Tok: token.DEFINE, Rhs: []ast.Expr{simCall("Recv2", id, x.X)}}
				brk := &ast.IfStmt{Cond: &ast.UnaryExpr{Op: token.NOT, X: ast.NewIdent("verifsimrtOK")}, Body: &ast.BlockStmt{List: []ast.Stmt{&ast.BranchStmt{Tok: token.BREAK}}}}
				body := &ast.BlockStmt{List: append([]ast.Stmt{recv, brk}, x.Body.List...)}
				c.Replace(&ast.ForStmt{Body: body})
				return false
			}
		case *ast.AssignStmt:
			if len(x.Lhs) == 2 && len(x.Rhs) == 1 {
				if u, ok := x.Rhs[0].(*ast.UnaryExpr); ok && u.Op == token.ARROW && isChan(p, u.X) {
					id := add(x, "recv2")
					x.Rhs[0] = simCall("Recv2", id, u.X)
					return false
				}
			}
		case *ast.UnaryExpr:
			if x.Op == token.ARROW && isChan(p, x.X) {
				id := add(x, "recv")
				c.Replace(simCall("Recv", id, x.X))
				return false
			}
		case *ast.CallExpr:
			if fn, ok := x.Fun.(*ast.Ident); ok && fn.Name == "close" && len(x.Args) == 1 && isChan(p, x.Args[0]) {
				if _, isBuiltin := p.TypesInfo.Uses[fn].(*types.Builtin); isBuiltin {
					id := add(x, "close")
					c.Replace(simCall("Close", id, x.Args[0]))
					return false
				}
			}
		}
		return true
	}
	astutil.Apply(f, pre, nil)
	return
}

// ---------------------------------------------------------------------------
// R2

// insertYieldsText puts `verifsimrt.Yield("site");` right after the opening
// brace of every function body, function literal body and for/range body of a
// file. It works on the text (offsets from a syntax-only parse), not through
// go/printer: a synthetic statement in front of a comment that follows the brace
// gets torn apart by the printer.
// stmtYields: also yield between statements (mode c06 only).
var stmtYields bool

func insertYieldsText(path, relf string, sites *[]site) error {
	src, err := os.ReadFile(path)
	if err != nil {
		return err
	}
	fset := token.NewFileSet()
	f, err := parser.ParseFile(fset, path, src, parser.SkipObjectResolution)
	if err != nil {
		return err
	}
	type ins struct {
		off  int
		text string
	}
	var list []ins
	entryBlocks := map[*ast.BlockStmt]bool{} // blocks that already get an entry yield
	add := func(b *ast.BlockStmt, at ast.Node, kind string) {
		if b == nil {
			return
		}
		entryBlocks[b] = true
		ps := fset.Position(at.Pos())
		id := fmt.Sprintf("%s:%d:%d:%s", relf, ps.Line, ps.Column, kind)
		*sites = append(*sites, site{ID: id, Rule: "R2", Pkg: filepath.ToSlash(filepath.Dir(relf))})
		list = append(list, ins{fset.Position(b.Lbrace).Offset + 1, fmt.Sprintf(" verifsimrt.Yield(%q);", id)})
	}
	// statement-level yields: before every statement but the first of a statement
	// list inside a function (narrow windows between two adjacent statements)
	stmts := func(l []ast.Stmt, skipFirst bool) {
		for i, st := range l {
			if i == 0 && skipFirst {
				continue
			}
			switch st.(type) {
			case *ast.CaseClause, *ast.CommClause:
				continue
			}
			ps := fset.Position(st.Pos())
			id := fmt.Sprintf("%s:%d:%d:stmt", relf, ps.Line, ps.Column)
			*sites = append(*sites, site{ID: id, Rule: "R2s", Pkg: filepath.ToSlash(filepath.Dir(relf))})
			list = append(list, ins{ps.Offset, fmt.Sprintf("verifsimrt.Yield(%q); ", id)})
		}
	}
	inFunc := 0
	var walk func(n ast.Node)
	walk = func(n ast.Node) {
		ast.Inspect(n, func(node ast.Node) bool {
			switch x := node.(type) {
			case *ast.FuncDecl:
				if x.Body != nil && x.Name.Name != "init" {
					add(x.Body, x, "func")
					if stmtYields {
						inFunc++
						walk(x.Body)
						inFunc--
						return false
					}
				}
			case *ast.FuncLit:
				add(x.Body, x, "funclit")
			case *ast.ForStmt:
				add(x.Body, x, "for")
			case *ast.RangeStmt:
				add(x.Body, x, "range")
			case *ast.BlockStmt:
				if inFunc > 0 {
					stmts(x.List, entryBlocks[x])
				}
			case *ast.CaseClause:
				if inFunc > 0 {
					stmts(x.Body, false)
				}
			}
			return true
		})
	}
	walk(f)
	if len(list) == 0 {
		return nil
	}
	sort.SliceStable(list, func(i, j int) bool { return list[i].off > list[j].off })
	out := append([]byte(nil), src...)
	for _, in := range list {
		out = append(out[:in.off:in.off], append([]byte(in.text), out[in.off:]...)...)
	}
	// make sure the runtime package is imported
	if !bytes.Contains(out, []byte(rtPath)) {
		end := fset.Position(f.Name.End()).Offset
		imp := fmt.Sprintf("\n\nimport verifsimrt %q\n", rtPath)
		out = append(out[:end:end], append([]byte(imp), out[end:]...)...)
	}
	fmted, err := format.Source(out)
	if err != nil {
		os.WriteFile(path+".simrewrite-failed", out, 0o644)
		return err
	}
	return os.WriteFile(path, fmted, 0o644)
}

// ---------------------------------------------------------------------------

func writeRuntime(dir string) error {
	if err := os.MkdirAll(dir, 0o755); err != nil {
		return err
	}
	return os.WriteFile(filepath.Join(dir, "simrt.go"), []byte(runtimeSrc), 0o644)
}

const runtimeSrc = `// Package simrt is the runtime half of simrewrite's instrumentation. It is
// generated into scratch copies only. Without hooks installed every function
// here is semantically empty (Range yields keys in a canonical sorted order).
package simrt

import (
	"fmt"
	"iter"
	"reflect"
	"sort"
	"sync"
)

// ---- R1: map order ---------------------------------------------------------

// Order, when set, returns the permutation (of 0..n-1) that the given
// execution of a map-range site uses over its canonically sorted keys.
var Order func(site string, n int) []int

type Ent[K comparable, V any] struct {
	K K
	m map[K]V
}

func (e Ent[K, V]) Get() (V, bool) { v, ok := e.m[e.K]; return v, ok }

func Range[K comparable, V any](site string, m map[K]V) []Ent[K, V] {
	n := len(m)
	if n == 0 {
		return nil
	}
	type ks struct {
		k K
		s string
	}
	keys := make([]ks, 0, n)
	for k := range m {
		keys = append(keys, ks{k, fmt.Sprintf("%v", k)})
	}
	sort.Slice(keys, func(i, j int) bool { return keys[i].s < keys[j].s })
	out := make([]Ent[K, V], n)
	var perm []int
	if Order != nil {
		perm = Order(site, n)
	}
	for i := range keys {
		j := i
		if perm != nil {
			j = perm[i]
		}
		out[i] = Ent[K, V]{keys[j].k, m}
	}
	return out
}

// MapKeys / MapValues / MapAll stand for maps.Keys / maps.Values / maps.All.
func MapKeys[M ~map[K]V, K comparable, V any](site string, m M) iter.Seq[K] {
	return func(yield func(K) bool) {
		for _, e := range Range(site, map[K]V(m)) {
			if _, ok := e.Get(); !ok {
				continue
			}
			if !yield(e.K) {
				return
			}
		}
	}
}

func MapValues[M ~map[K]V, K comparable, V any](site string, m M) iter.Seq[V] {
	return func(yield func(V) bool) {
		for _, e := range Range(site, map[K]V(m)) {
			v, ok := e.Get()
			if !ok {
				continue
			}
			if !yield(v) {
				return
			}
		}
	}
}

func MapAll[M ~map[K]V, K comparable, V any](site string, m M) iter.Seq2[K, V] {
	return func(yield func(K, V) bool) {
		for _, e := range Range(site, map[K]V(m)) {
			v, ok := e.Get()
			if !ok {
				continue
			}
			if !yield(e.K, v) {
				return
			}
		}
	}
}

// ---- R2/R3: yields and locks -------------------------------------------------

// YieldHook is called at every instrumented yield point; BlockedHook when a
// lock could not be taken; UnlockHook after a lock was released.
var (
	YieldHook   func(site string)
	BlockedHook func(site string)
	UnlockHook  func(site string)
	LockHook    func(site string)
	// AcquiredHook is called right after a lock was taken (still holding it).
	AcquiredHook func(site string)
)

func acquired(site string) {
	if h := AcquiredHook; h != nil {
		h(site)
	}
}

func Yield(site string) {
	if h := YieldHook; h != nil {
		h(site)
	}
}

func Lock(site string, m *sync.Mutex) {
	if h := LockHook; h != nil {
		h(site)
	}
	if BlockedHook == nil {
		m.Lock()
		acquired(site)
		return
	}
	for !m.TryLock() {
		BlockedHook(site)
	}
	acquired(site)
}

func Unlock(site string, m *sync.Mutex) {
	m.Unlock()
	if h := UnlockHook; h != nil {
		h(site)
	}
}

// Interface-based variants: they also serve locks reached through an embedded
// sync.Mutex / sync.RWMutex (struct{ sync.Mutex; ... }).
type locker interface {
	Lock()
	TryLock() bool
	Unlock()
}

type rlocker interface {
	RLock()
	TryRLock() bool
	RUnlock()
}

func LockL(site string, m locker) {
	if h := LockHook; h != nil {
		h(site)
	}
	if BlockedHook == nil {
		m.Lock()
		acquired(site)
		return
	}
	for !m.TryLock() {
		BlockedHook(site)
	}
	acquired(site)
}

func UnlockL(site string, m locker) {
	m.Unlock()
	if h := UnlockHook; h != nil {
		h(site)
	}
}

func RLockL(site string, m rlocker) {
	if h := LockHook; h != nil {
		h(site)
	}
	if BlockedHook == nil {
		m.RLock()
		return
	}
	for !m.TryRLock() {
		BlockedHook(site)
	}
}

func RUnlockL(site string, m rlocker) {
	m.RUnlock()
	if h := UnlockHook; h != nil {
		h(site)
	}
}

func RWLock(site string, m *sync.RWMutex) {
	if h := LockHook; h != nil {
		h(site)
	}
	if BlockedHook == nil {
		m.Lock()
		acquired(site)
		return
	}
	for !m.TryLock() {
		BlockedHook(site)
	}
	acquired(site)
}

func RWUnlock(site string, m *sync.RWMutex) {
	m.Unlock()
	if h := UnlockHook; h != nil {
		h(site)
	}
}

func RWRLock(site string, m *sync.RWMutex) {
	if h := LockHook; h != nil {
		h(site)
	}
	if BlockedHook == nil {
		m.RLock()
		return
	}
	for !m.TryRLock() {
		BlockedHook(site)
	}
}

func RWRUnlock(site string, m *sync.RWMutex) {
	m.RUnlock()
	if h := UnlockHook; h != nil {
		h(site)
	}
}

// OnceDo stands for once.Do(f). Under a scheduler a caller that finds another
// worker inside Do parks (a switch point like a contended lock) instead of
// blocking in the real Once while it holds the baton; every caller still ends
// in the real once.Do, which gives the usual happens-before edge.
func OnceDo(site string, o *sync.Once, f func()) {
	blocked := BlockedHook
	if blocked == nil {
		if s := Sim; s != nil {
			blocked = s.Blocked
		}
	}
	if blocked == nil {
		o.Do(f)
		return
	}
	if h := LockHook; h != nil {
		h(site)
	}
	for onceRunning(o) {
		blocked(site)
	}
	if onceDone(o) {
		o.Do(f)
		return
	}
	onceSet(o, true, false)
	defer func() {
		onceSet(o, false, true)
		if h := UnlockHook; h != nil {
			h(site)
		} else if s := Sim; s != nil {
			s.Event(site)
		}
	}()
	o.Do(f)
}

// (a slice, not a map, and //go:norace: this is scheduler-side state that the
// workers touch one at a time under the baton, which the race detector cannot see)
type onceState struct {
	o             *sync.Once
	running, done bool
}

var onceStates []*onceState

//go:norace
func onceFind(o *sync.Once) *onceState {
	for _, s := range onceStates {
		if s.o == o {
			return s
		}
	}
	s := &onceState{o: o}
	onceStates = append(onceStates, s)
	return s
}

//go:norace
func onceRunning(o *sync.Once) bool { return onceFind(o).running }

//go:norace
func onceDone(o *sync.Once) bool { return onceFind(o).done }

//go:norace
func onceSet(o *sync.Once, running, done bool) {
	s := onceFind(o)
	s.running, s.done = running, done
}

// WaitGroup wrappers: the real WaitGroup is kept in step (it gives the
// happens-before edges), a shadow counter lets Wait park in the scheduler.
type wgState struct {
	wg *sync.WaitGroup
	n  int
}

var wgStates []*wgState

//go:norace
func wgAdd(wg *sync.WaitGroup, d int) int {
	for _, s := range wgStates {
		if s.wg == wg {
			s.n += d
			return s.n
		}
	}
	wgStates = append(wgStates, &wgState{wg, d})
	return d
}

func WGAdd(site string, wg *sync.WaitGroup, d int) {
	if Sim == nil {
		wg.Add(d)
		return
	}
	wgAdd(wg, d)
	wg.Add(d)
	Sim.Event(site)
}

func WGDone(site string, wg *sync.WaitGroup) {
	if Sim == nil {
		wg.Done()
		return
	}
	wgAdd(wg, -1)
	wg.Done()
	Sim.Event(site)
}

func WGWait(site string, wg *sync.WaitGroup) {
	if Sim == nil {
		wg.Wait()
		return
	}
	Sim.Event(site)
	for wgAdd(wg, 0) > 0 {
		Sim.Blocked(site)
	}
	wg.Wait()
}

func WGGo(site string, wg *sync.WaitGroup, f func()) {
	WGAdd(site, wg, 1)
	Go(site, func() {
		defer WGDone(site, wg)
		f()
	})
}

// ResetSync forgets the shadow state of Once and WaitGroup objects (between cases).
//
//go:norace
func ResetSync() { wgStates = nil }

// ---- R4: goroutines and channels ----------------------------------------------
//
// With Sim == nil these are the plain Go operations. With a simulator installed
// goroutines become scheduler workers and channels are simulated: a sender
// leaves an offer and parks until a receiver has taken it (or, for a buffered
// channel, puts the value into the buffer), a receiver parks until an offer, a
// buffered value or a close arrives; select picks among the ready cases (the
// simulator chooses which) or parks with tentative offers that a receiver may
// take. Parking and waking go through the hooks, so the scheduler decides every
// interleaving and sees every deadlock.

type Simulator struct {
	Spawn   func(site string, fn func())
	Blocked func(site string)  // park until some other worker reports an event
	Event   func(site string)  // something changed that may unblock others (also a switch point)
	Choose  func(n int) int    // which of n ready select cases (nil: the first)
}

var Sim *Simulator

type selState struct{ chosen int } // -2 undecided

type offer struct {
	v     any
	sel   *selState // nil: plain send (committed)
	idx   int
	taken bool
}

type simChan struct {
	buf     []any
	offers  []*offer
	closed  bool
	waiters int // receivers parked on this channel (plain or in a select)
}

var simChans = map[uintptr]*simChan{}

// ResetChannels forgets all simulated channel state (between cases).
func ResetChannels() { simChans = map[uintptr]*simChan{} }

func chanOf(ch any) *simChan {
	k := reflect.ValueOf(ch).Pointer()
	c := simChans[k]
	if c == nil {
		c = &simChan{}
		simChans[k] = c
	}
	return c
}

// live drops offers of selects that were decided otherwise and returns the pending ones.
func (c *simChan) live() []*offer {
	out := c.offers[:0]
	for _, o := range c.offers {
		if o.taken || (o.sel != nil && o.sel.chosen != -2) {
			continue
		}
		out = append(out, o)
	}
	c.offers = out
	return out
}

func (c *simChan) committed() int {
	n := 0
	for _, o := range c.live() {
		if o.sel == nil {
			n++
		}
	}
	return n
}

func (c *simChan) recvReady() bool { return len(c.buf) > 0 || len(c.live()) > 0 || c.closed }

// take performs a receive that is known to be ready.
func (c *simChan) take(capacity int) (any, bool) {
	if len(c.buf) > 0 {
		v := c.buf[0]
		c.buf = c.buf[1:]
		// a sender parked on the full buffer moves in
		if l := c.live(); len(l) > 0 && len(c.buf) < capacity {
			o := l[0]
			o.taken = true
			if o.sel != nil {
				o.sel.chosen = o.idx
			}
			c.buf = append(c.buf, o.v)
		}
		return v, true
	}
	if l := c.live(); len(l) > 0 {
		o := l[0]
		o.taken = true
		if o.sel != nil {
			o.sel.chosen = o.idx
		}
		return o.v, true
	}
	return nil, false // closed
}

func Go(site string, fn func()) {
	if s := Sim; s != nil {
		s.Spawn(site, fn)
		return
	}
	go fn()
}

func Send[T any](site string, ch chan<- T, v T) {
	s := Sim
	if s == nil {
		ch <- v
		return
	}
	c := chanOf(ch)
	if c.closed {
		panic("send on closed channel")
	}
	if len(c.buf) < cap(ch) && len(c.live()) == 0 {
		c.buf = append(c.buf, v)
		s.Event(site)
		return
	}
	o := &offer{v: v}
	c.offers = append(c.offers, o)
	s.Event(site)
	for !o.taken {
		if c.closed {
			panic("send on closed channel")
		}
		s.Blocked(site)
	}
}

func Recv2[T any](site string, ch <-chan T) (T, bool) {
	s := Sim
	if s == nil {
		v, ok := <-ch
		return v, ok
	}
	c := chanOf(ch)
	for !c.recvReady() {
		c.waiters++
		s.Blocked(site)
		c.waiters--
	}
	v, ok := c.take(cap(ch))
	s.Event(site)
	if !ok {
		var zero T
		return zero, false
	}
	return v.(T), true
}

func Recv[T any](site string, ch <-chan T) T {
	v, _ := Recv2(site, ch)
	return v
}

func Close[T any](site string, ch chan<- T) {
	s := Sim
	if s == nil {
		close(ch)
		return
	}
	c := chanOf(ch)
	if c.closed {
		panic("close of closed channel")
	}
	c.closed = true
	s.Event(site)
}

// SelCase is one communication clause of a select statement.
type SelCase struct {
	ch   any
	send bool
	val  any
	capa int
	rv   reflect.Value
}

func SendCase[T any](ch chan<- T, v T) SelCase {
	return SelCase{ch: ch, send: true, val: v, capa: cap(ch), rv: reflect.ValueOf(ch)}
}

func RecvCase[T any](ch <-chan T) SelCase {
	return SelCase{ch: ch, capa: cap(ch), rv: reflect.ValueOf(ch)}
}

// As converts the value a RecvCase delivered back to the channel's element type.
func As[T any](ch <-chan T, v any) T {
	if v == nil {
		var zero T
		return zero
	}
	return v.(T)
}

// Select returns the index of the clause that fired (-1: default), and for a
// receive clause the value and the ok flag.
func Select(site string, hasDefault bool, cases ...SelCase) (int, any, bool) {
	s := Sim
	if s == nil {
		rc := make([]reflect.SelectCase, 0, len(cases)+1)
		for _, c := range cases {
			if c.send {
				rc = append(rc, reflect.SelectCase{Dir: reflect.SelectSend, Chan: c.rv, Send: reflect.ValueOf(c.val)})
			} else {
				rc = append(rc, reflect.SelectCase{Dir: reflect.SelectRecv, Chan: c.rv})
			}
		}
		if hasDefault {
			rc = append(rc, reflect.SelectCase{Dir: reflect.SelectDefault})
		}
		i, v, ok := reflect.Select(rc)
		if hasDefault && i == len(cases) {
			return -1, nil, false
		}
		if cases[i].send {
			return i, nil, false
		}
		if !ok {
			return i, nil, false
		}
		return i, v.Interface(), true
	}
	chans := make([]*simChan, len(cases))
	for i, c := range cases {
		if !c.rv.IsNil() {
			chans[i] = chanOf(c.ch)
		}
	}
	ready := func() []int {
		var r []int
		for i, c := range cases {
			sc := chans[i]
			if sc == nil {
				continue // nil channel: never ready
			}
			if c.send {
				if sc.closed || (len(sc.buf) < c.capa && len(sc.live()) == 0) || sc.waiters > sc.committed() {
					r = append(r, i)
				}
			} else if sc.recvReady() {
				r = append(r, i)
			}
		}
		return r
	}
	fire := func(i int) (int, any, bool) {
		c, sc := cases[i], chans[i]
		if c.send {
			if sc.closed {
				panic("send on closed channel")
			}
			if len(sc.buf) < c.capa && len(sc.live()) == 0 {
				sc.buf = append(sc.buf, c.val)
				s.Event(site)
				return i, nil, false
			}
			o := &offer{v: c.val}
			sc.offers = append(sc.offers, o)
			s.Event(site)
			for !o.taken {
				if sc.closed {
					panic("send on closed channel")
				}
				s.Blocked(site)
			}
			return i, nil, false
		}
		v, ok := sc.take(c.capa)
		s.Event(site)
		return i, v, ok
	}
	pick := func(r []int) int {
		// a receive clause for which a sender has already committed itself goes first (that
		// sender counted on us); otherwise the simulator chooses
		for _, i := range r {
			if !cases[i].send && chans[i].committed() > 0 {
				return i
			}
		}
		if s.Choose != nil && len(r) > 1 {
			return r[s.Choose(len(r))]
		}
		return r[0]
	}
	if r := ready(); len(r) > 0 {
		return fire(pick(r))
	}
	if hasDefault {
		return -1, nil, false
	}
	st := &selState{chosen: -2}
	for i, c := range cases {
		if c.send && chans[i] != nil {
			chans[i].offers = append(chans[i].offers, &offer{v: c.val, sel: st, idx: i})
		}
	}
	s.Event(site)
	for {
		// (the Event above is a switch point: look again BEFORE parking, or a close or a
		// send that happened meanwhile is a lost wake-up)
		if st.chosen >= 0 {
			return st.chosen, nil, false // a receiver took one of our offers
		}
		var r []int
		for i, c := range cases {
			if c.send || chans[i] == nil {
				if c.send && chans[i] != nil && chans[i].closed {
					panic("send on closed channel")
				}
				continue
			}
			if chans[i].recvReady() {
				r = append(r, i)
			}
		}
		if len(r) > 0 {
			i := pick(r)
			st.chosen = i // withdraws our tentative offers
			return fire(i)
		}
		for i, c := range cases {
			if !c.send && chans[i] != nil {
				chans[i].waiters++
			}
		}
		s.Blocked(site)
		for i, c := range cases {
			if !c.send && chans[i] != nil {
				chans[i].waiters--
			}
		}
	}
}
`
