// simrewrite puts runtime nondeterminism of a scratch copy of sdcio/yang-parser
// behind seams the simulator owns, without touching /repo:
//
//	R1 (mode c11): every `for k, v := range <map>` in the module's non-test code
//	   iterates over simrt.Range(site, m) instead: keys snapshotted, sorted into a
//	   canonical order, then permuted by the harness-installed hook. Entries
//	   deleted during the loop are skipped (Go's rule); entries inserted during
//	   the loop are not visited (permitted by the spec).
//	R2 (mode c06): simrt.Yield(site) as first statement of every function body
//	   and every for/range body in xpath, xpath/xutils and xpath/grammars/*.
//	R3 (mode c06): x.Lock()/x.Unlock() on sync.Mutex/RWMutex values become
//	   simrt.Lock(site,&x)/simrt.Unlock(site,&x) (TryLock loop + yield), also in
//	   defer statements; RLock/RUnlock likewise.
//
// Forms the pass does not recognise are left alone and listed; with -strict a
// leftover map range in compile, schema or parse is an error (exit 2).
package main

import (
	"bytes"
	"flag"
	"fmt"
	"go/ast"
	"go/format"
	"go/token"
	"go/types"
	"os"
	"path/filepath"
	"sort"
	"strings"

	"golang.org/x/tools/go/ast/astutil"
	"golang.org/x/tools/go/packages"
)

const modPath = "github.com/sdcio/yang-parser"
const rtPath = modPath + "/zz_verifsimrt"

var (
	mode = flag.String("mode", "c11", "c11 | c06 | scan")
	repo = flag.String("repo", "", "scratch copy of the repository (modified in place)")
	gobin = flag.String("go", "", "go binary to use for loading packages")
)

type site struct {
	ID, Rule, Pkg string
}

func main() {
	flag.Parse()
	if *repo == "" {
		fmt.Fprintln(os.Stderr, "simrewrite: -repo required")
		os.Exit(2)
	}
	env := os.Environ()
	if *gobin != "" {
		// make `go` resolve to the requested toolchain for go/packages
		dir, err := os.MkdirTemp("", "simrewrite-go-")
		if err != nil {
			fatal(err)
		}
		defer os.RemoveAll(dir)
		if err := os.Symlink(*gobin, filepath.Join(dir, "go")); err != nil {
			fatal(err)
		}
		env = append(env, "PATH="+dir+string(os.PathListSeparator)+os.Getenv("PATH"))
		os.Setenv("PATH", dir+string(os.PathListSeparator)+os.Getenv("PATH"))
	}
	cfg := &packages.Config{
		Mode: packages.NeedName | packages.NeedFiles | packages.NeedCompiledGoFiles | packages.NeedSyntax | packages.NeedTypes | packages.NeedTypesInfo | packages.NeedImports,
		Dir:  *repo,
		Env:  env,
	}
	pkgs, err := packages.Load(cfg, "./...")
	if err != nil {
		fatal(err)
	}
	bad := false
	for _, p := range pkgs {
		for _, e := range p.Errors {
			fmt.Fprintf(os.Stderr, "simrewrite: load error in %s: %v\n", p.PkgPath, e)
			bad = true
		}
	}
	if bad {
		os.Exit(2)
	}
	sort.Slice(pkgs, func(i, j int) bool { return pkgs[i].PkgPath < pkgs[j].PkgPath })

	var sites []site
	var skipped []string
	changed := map[string]*ast.File{}
	fsets := map[string]*token.FileSet{}
	for _, p := range pkgs {
		rel := strings.TrimPrefix(strings.TrimPrefix(p.PkgPath, modPath), "/")
		if strings.HasPrefix(rel, "zz_verifsimrt") {
			continue
		}
		for i, f := range p.Syntax {
			name := p.CompiledGoFiles[i]
			if strings.HasSuffix(name, "_test.go") {
				continue
			}
			relf, _ := filepath.Rel(*repo, name)
			touched := false
			switch *mode {
			case "c11", "scan":
				n, sk := rewriteMapRanges(p, f, relf, &sites, *mode == "scan")
				touched = n > 0
				skipped = append(skipped, sk...)
			case "c06":
				if rel == "xpath" || strings.HasPrefix(rel, "xpath/xutils") || strings.HasPrefix(rel, "xpath/grammars/") {
					if strings.Contains(rel, "lexertest") {
						continue
					}
					n := rewriteLocks(p, f, relf, &sites)
					n += insertYields(p, f, relf, &sites)
					touched = n > 0
				}
			}
			if touched {
				astutil.AddNamedImport(p.Fset, f, "verifsimrt", rtPath)
				changed[name] = f
				fsets[name] = p.Fset
			}
		}
	}
	if *mode != "scan" {
		names := make([]string, 0, len(changed))
		for n := range changed {
			names = append(names, n)
		}
		sort.Strings(names)
		for _, n := range names {
			var buf bytes.Buffer
			if err := format.Node(&buf, fsets[n], changed[n]); err != nil {
				fatal(fmt.Errorf("format %s: %v", n, err))
			}
			if err := os.WriteFile(n, buf.Bytes(), 0o644); err != nil {
				fatal(err)
			}
		}
		if err := writeRuntime(filepath.Join(*repo, "zz_verifsimrt")); err != nil {
			fatal(err)
		}
	}
	count := map[string]int{}
	for _, s := range sites {
		count[s.Rule+" "+s.Pkg]++
		fmt.Printf("SITE %s %s\n", s.Rule, s.ID)
	}
	keys := make([]string, 0, len(count))
	for k := range count {
		keys = append(keys, k)
	}
	sort.Strings(keys)
	for _, k := range keys {
		fmt.Printf("COUNT %s %d\n", k, count[k])
	}
	for _, s := range skipped {
		fmt.Printf("UNREWRITTEN %s\n", s)
	}
	if len(skipped) > 0 && *mode == "c11" {
		for _, s := range skipped {
			if strings.HasPrefix(s, "compile/") || strings.HasPrefix(s, "schema/") || strings.HasPrefix(s, "parse/") {
				fmt.Fprintln(os.Stderr, "simrewrite: map range of an unsupported form in compile/schema/parse; cannot claim coverage:", s)
				os.Exit(2)
			}
		}
	}
}

func fatal(err error) {
	fmt.Fprintln(os.Stderr, "simrewrite:", err)
	os.Exit(2)
}

func pos(p *packages.Package, relf string, n ast.Node) string {
	ps := p.Fset.Position(n.Pos())
	return fmt.Sprintf("%s:%d:%d", relf, ps.Line, ps.Column)
}

func pkgRel(p *packages.Package) string {
	return strings.TrimPrefix(strings.TrimPrefix(p.PkgPath, modPath), "/")
}

// ---------------------------------------------------------------------------
// R1

func rewriteMapRanges(p *packages.Package, f *ast.File, relf string, sites *[]site, scanOnly bool) (n int, skipped []string) {
	ast.Inspect(f, func(node ast.Node) bool {
		rs, ok := node.(*ast.RangeStmt)
		if !ok {
			return true
		}
		tv, ok := p.TypesInfo.Types[rs.X]
		if !ok {
			return true
		}
		if _, isMap := tv.Type.Underlying().(*types.Map); !isMap {
			return true
		}
		id := pos(p, relf, rs)
		if rs.Tok != token.DEFINE && !(rs.Key == nil && rs.Value == nil) {
			skipped = append(skipped, id+" (assignment form)")
			return true
		}
		keyName, valName := "", ""
		if rs.Key != nil {
			k, ok := rs.Key.(*ast.Ident)
			if !ok {
				skipped = append(skipped, id+" (non-identifier key)")
				return true
			}
			keyName = k.Name
		}
		if rs.Value != nil {
			v, ok := rs.Value.(*ast.Ident)
			if !ok {
				skipped = append(skipped, id+" (non-identifier value)")
				return true
			}
			valName = v.Name
		}
		*sites = append(*sites, site{ID: id, Rule: "R1", Pkg: pkgRel(p)})
		n++
		if scanOnly {
			return true
		}
		ent := ast.NewIdent("verifsimrtE")
		var pre []ast.Stmt
		if keyName != "" && keyName != "_" {
			pre = append(pre, &ast.AssignStmt{Lhs: []ast.Expr{ast.NewIdent(keyName)}, Tok: token.DEFINE, Rhs: []ast.Expr{&ast.SelectorExpr{X: ent, Sel: ast.NewIdent("K")}}})
		}
		vn := "_"
		if valName != "" {
			vn = valName
		}
		pre = append(pre, &ast.AssignStmt{
			Lhs: []ast.Expr{ast.NewIdent(vn), ast.NewIdent("verifsimrtOK")}, Tok: token.DEFINE,
			Rhs: []ast.Expr{&ast.CallExpr{Fun: &ast.SelectorExpr{X: ent, Sel: ast.NewIdent("Get")}}},
		})
		pre = append(pre, &ast.IfStmt{
			Cond: &ast.UnaryExpr{Op: token.NOT, X: ast.NewIdent("verifsimrtOK")},
			Body: &ast.BlockStmt{List: []ast.Stmt{&ast.BranchStmt{Tok: token.CONTINUE}}},
		})
		rs.Body.List = append(pre, rs.Body.List...)
		rs.X = &ast.CallExpr{
			Fun:  &ast.SelectorExpr{X: ast.NewIdent("verifsimrt"), Sel: ast.NewIdent("Range")},
			Args: []ast.Expr{&ast.BasicLit{Kind: token.STRING, Value: fmt.Sprintf("%q", id)}, rs.X},
		}
		rs.Key = ast.NewIdent("_")
		rs.Value = ent
		rs.Tok = token.DEFINE
		return true
	})
	return
}

// ---------------------------------------------------------------------------
// R3

func isMutex(t types.Type) (bool, bool) {
	if ptr, ok := t.(*types.Pointer); ok {
		t = ptr.Elem()
	}
	named, ok := t.(*types.Named)
	if !ok || named.Obj().Pkg() == nil || named.Obj().Pkg().Path() != "sync" {
		return false, false
	}
	switch named.Obj().Name() {
	case "Mutex":
		return true, false
	case "RWMutex":
		return true, true
	}
	return false, false
}

func rewriteLocks(p *packages.Package, f *ast.File, relf string, sites *[]site) int {
	n := 0
	astutil.Apply(f, func(c *astutil.Cursor) bool {
		call, ok := c.Node().(*ast.CallExpr)
		if !ok || len(call.Args) != 0 {
			return true
		}
		sel, ok := call.Fun.(*ast.SelectorExpr)
		if !ok {
			return true
		}
		var fn string
		switch sel.Sel.Name {
		case "Lock":
			fn = "Lock"
		case "Unlock":
			fn = "Unlock"
		case "RLock":
			fn = "RLock"
		case "RUnlock":
			fn = "RUnlock"
		default:
			return true
		}
		tv, ok := p.TypesInfo.Types[sel.X]
		if !ok {
			return true
		}
		isM, isRW := isMutex(tv.Type)
		if !isM {
			return true
		}
		if (fn == "RLock" || fn == "RUnlock") && !isRW {
			return true
		}
		id := pos(p, relf, call)
		*sites = append(*sites, site{ID: id, Rule: "R3", Pkg: pkgRel(p)})
		n++
		var arg ast.Expr = sel.X
		if _, isPtr := tv.Type.(*types.Pointer); !isPtr {
			arg = &ast.UnaryExpr{Op: token.AND, X: sel.X}
		}
		name := fn
		if isRW {
			name = "RW" + fn
		}
		call.Fun = &ast.SelectorExpr{X: ast.NewIdent("verifsimrt"), Sel: ast.NewIdent(name)}
		call.Args = []ast.Expr{&ast.BasicLit{Kind: token.STRING, Value: fmt.Sprintf("%q", id)}, arg}
		return true
	}, nil)
	return n
}

// ---------------------------------------------------------------------------
// R2

func yieldStmt(id string) ast.Stmt {
	return &ast.ExprStmt{X: &ast.CallExpr{
		Fun:  &ast.SelectorExpr{X: ast.NewIdent("verifsimrt"), Sel: ast.NewIdent("Yield")},
		Args: []ast.Expr{&ast.BasicLit{Kind: token.STRING, Value: fmt.Sprintf("%q", id)}},
	}}
}

func insertYields(p *packages.Package, f *ast.File, relf string, sites *[]site) int {
	n := 0
	add := func(b *ast.BlockStmt, at ast.Node, kind string) {
		if b == nil {
			return
		}
		id := pos(p, relf, at) + ":" + kind
		*sites = append(*sites, site{ID: id, Rule: "R2", Pkg: pkgRel(p)})
		b.List = append([]ast.Stmt{yieldStmt(id)}, b.List...)
		n++
	}
	ast.Inspect(f, func(node ast.Node) bool {
		switch x := node.(type) {
		case *ast.FuncDecl:
			if x.Body != nil && x.Name.Name != "init" {
				add(x.Body, x, "func")
			}
		case *ast.FuncLit:
			add(x.Body, x, "funclit")
		case *ast.ForStmt:
			add(x.Body, x, "for")
		case *ast.RangeStmt:
			add(x.Body, x, "range")
		}
		return true
	})
	return n
}

// ---------------------------------------------------------------------------

func writeRuntime(dir string) error {
	if err := os.MkdirAll(dir, 0o755); err != nil {
		return err
	}
	return os.WriteFile(filepath.Join(dir, "simrt.go"), []byte(runtimeSrc), 0o644)
}

const runtimeSrc = `// Package simrt is the runtime half of simrewrite's instrumentation. It is
// generated into scratch copies only. Without hooks installed every function
// here is semantically empty (Range yields keys in a canonical sorted order).
package simrt

import (
	"fmt"
	"sort"
	"sync"
)

// ---- R1: map order ---------------------------------------------------------

// Order, when set, returns the permutation (of 0..n-1) that the given
// execution of a map-range site uses over its canonically sorted keys.
var Order func(site string, n int) []int

type Ent[K comparable, V any] struct {
	K K
	m map[K]V
}

func (e Ent[K, V]) Get() (V, bool) { v, ok := e.m[e.K]; return v, ok }

func Range[K comparable, V any](site string, m map[K]V) []Ent[K, V] {
	n := len(m)
	if n == 0 {
		return nil
	}
	type ks struct {
		k K
		s string
	}
	keys := make([]ks, 0, n)
	for k := range m {
		keys = append(keys, ks{k, fmt.Sprintf("%v", k)})
	}
	sort.Slice(keys, func(i, j int) bool { return keys[i].s < keys[j].s })
	out := make([]Ent[K, V], n)
	var perm []int
	if Order != nil {
		perm = Order(site, n)
	}
	for i := range keys {
		j := i
		if perm != nil {
			j = perm[i]
		}
		out[i] = Ent[K, V]{keys[j].k, m}
	}
	return out
}

// ---- R2/R3: yields and locks -------------------------------------------------

// YieldHook is called at every instrumented yield point; BlockedHook when a
// lock could not be taken; UnlockHook after a lock was released.
var (
	YieldHook   func(site string)
	BlockedHook func(site string)
	UnlockHook  func(site string)
	LockHook    func(site string)
	// AcquiredHook is called right after a lock was taken (still holding it).
	AcquiredHook func(site string)
)

func acquired(site string) {
	if h := AcquiredHook; h != nil {
		h(site)
	}
}

func Yield(site string) {
	if h := YieldHook; h != nil {
		h(site)
	}
}

func Lock(site string, m *sync.Mutex) {
	if h := LockHook; h != nil {
		h(site)
	}
	if BlockedHook == nil {
		m.Lock()
		acquired(site)
		return
	}
	for !m.TryLock() {
		BlockedHook(site)
	}
	acquired(site)
}

func Unlock(site string, m *sync.Mutex) {
	m.Unlock()
	if h := UnlockHook; h != nil {
		h(site)
	}
}

func RWLock(site string, m *sync.RWMutex) {
	if h := LockHook; h != nil {
		h(site)
	}
	if BlockedHook == nil {
		m.Lock()
		acquired(site)
		return
	}
	for !m.TryLock() {
		BlockedHook(site)
	}
	acquired(site)
}

func RWUnlock(site string, m *sync.RWMutex) {
	m.Unlock()
	if h := UnlockHook; h != nil {
		h(site)
	}
}

func RWRLock(site string, m *sync.RWMutex) {
	if h := LockHook; h != nil {
		h(site)
	}
	if BlockedHook == nil {
		m.RLock()
		return
	}
	for !m.TryRLock() {
		BlockedHook(site)
	}
}

func RWRUnlock(site string, m *sync.RWMutex) {
	m.RUnlock()
	if h := UnlockHook; h != nil {
		h(site)
	}
}
`
