#!/usr/bin/env python3
"""Determinism self-test: run the same seeds in fresh worker processes at several
GOMAXPROCS values, twice each, and diff the per-case event logs (outcome hashes).
usage: selftest.py <world> <binary> <nseeds> <cases-per-seed> [runargs...]
Exit 0 when every repetition of every seed produced an identical log, 2 otherwise."""
import os, subprocess, sys, tempfile, hashlib, concurrent.futures as cf

world, binary, nseeds, ncases = sys.argv[1], sys.argv[2], int(sys.argv[3]), int(sys.argv[4])
runargs = sys.argv[5:]
procs_list = [2, 4, 16] if world == "c06" else [1, 4, 16]
tmp = tempfile.mkdtemp(prefix="verif-selftest-")

def run(seed, gmp, rep):
    ev = os.path.join(tmp, f"ev-{seed}-{gmp}-{rep}")
    env = dict(os.environ, GOMAXPROCS=str(gmp), VERIF_GOMAXPROCS=str(gmp), VERIF_WORKDIR=tmp)
    out = b""
    if world == "c06":
        # one case per process
        env["GORACE"] = f"log_path={tmp}/race-{seed}-{gmp}-{rep} exitcode=0 atexit_sleep_ms=0"
        lines = []
        for i in range(ncases):
            e = ev + f".{i}"
            r = subprocess.run([binary, *runargs, "-mode=worker", f"-seed={seed}", f"-first={i}", "-count=1", f"-events={e}"], env=env, capture_output=True)
            out += r.stdout
            lines.append(open(e).read() if os.path.exists(e) else "<no events>")
        log = "".join(lines)
    else:
        r = subprocess.run([binary, *runargs, "-mode=worker", f"-seed={seed}", f"-count={ncases}", f"-events={ev}"], env=env, capture_output=True)
        out = r.stdout
        log = open(ev).read() if os.path.exists(ev) else "<no events>"
    viol = [l for l in out.decode(errors="replace").splitlines() if l.startswith('{"t":"viol"') or l.startswith('{"t":"flaky"')]
    return seed, gmp, rep, hashlib.sha256(log.encode()).hexdigest(), len(log.splitlines()), len(viol)

jobs = [(s, g, r) for s in range(1, nseeds + 1) for g in procs_list for r in (0, 1)]
res = {}
with cf.ThreadPoolExecutor(max_workers=16) as ex:
    for seed, gmp, rep, h, n, nv in ex.map(lambda a: run(*a), jobs):
        res.setdefault(seed, []).append((gmp, rep, h, n, nv))
bad = 0
total_lines = 0
for seed, l in sorted(res.items()):
    hs = {x[2] for x in l}
    total_lines += l[0][3]
    if len(hs) != 1 or any(x[3] == 0 for x in l):
        bad += 1
        print(f"NONDETERMINISTIC seed={seed}: {sorted(l)}")
print(f"selftest {world}: {nseeds} seeds x {len(procs_list)} GOMAXPROCS values {procs_list} x 2 repetitions, {ncases} cases each, {total_lines} case outcomes per repetition set; {bad} seeds differ")
subprocess.run(["rm", "-rf", tmp])
sys.exit(2 if bad else 0)
