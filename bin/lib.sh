# Shared shell helpers for /verif/bin/check and /verif/bin/setup.
# Exit-code convention: 0 held, 1 violation, 2 build/harness trouble.

VERIF_ROOT="$(cd "$(dirname "${BASH_SOURCE[0]}")/.." && pwd)"
REPO_ROOT="${VERIF_REPO:-/repo}"
BUILD_DIR="$VERIF_ROOT/.build"

export GOFLAGS=-mod=mod GOPROXY=off GOSUMDB=off GOTOOLCHAIN=local
export GOCACHE="${GOCACHE:-$HOME/.cache/go-build}"
GO=go1.26.8

die2() { echo "check: $*" >&2; exit 2; }

need_tools() {
  command -v $GO >/dev/null || die2 "go1.26.8 not on PATH"
  mkdir -p "$BUILD_DIR"
  if [ ! -x "$BUILD_DIR/goyacc" ] || [ "$VERIF_ROOT/tools/goyacc/yacc.go" -nt "$BUILD_DIR/goyacc" ]; then
    (cd "$VERIF_ROOT/tools/goyacc" && $GO build -o "$BUILD_DIR/goyacc" .) || die2 "cannot build goyacc"
  fi
  if [ ! -x "$BUILD_DIR/simrewrite" ] || [ -n "$(find "$VERIF_ROOT/tools/simrewrite" -newer "$BUILD_DIR/simrewrite" -name '*.go' 2>/dev/null)" ]; then
    if [ -d "$VERIF_ROOT/tools/simrewrite" ]; then
      (cd "$VERIF_ROOT/tools/simrewrite" && $GO build -o "$BUILD_DIR/simrewrite" .) || die2 "cannot build simrewrite"
    fi
  fi
}

# mkscratch <dir>: copy /repo's working tree (no .git) into <dir>/repo and make
# the whole module buildable (generate leafref.go when the tree lacks it).
mkscratch() {
  local d="$1"
  mkdir -p "$d/repo" || die2 "mkdir scratch"
  rsync -a --exclude .git "$REPO_ROOT"/ "$d/repo"/ || die2 "copy of $REPO_ROOT failed"
  local lr="$d/repo/xpath/grammars/leafref"
  if [ -f "$lr/leafref.y" ] && [ ! -f "$lr/leafref.go" ]; then
    (cd "$lr" && "$BUILD_DIR/goyacc" -o leafref.go -p leafref leafref.y >/dev/null 2>&1 && rm -f y.output) || die2 "goyacc failed on leafref.y"
  fi
}

# mkharness <dir>: copy the Go side of /verif next to the repo copy.
mkharness() {
  local d="$1"
  mkdir -p "$d/h" || die2 "mkdir scratch/h"
  rsync -a "$VERIF_ROOT/go"/ "$d/h"/ || die2 "copy of harness failed"
  cp "$d/repo/go.sum" "$d/h/go.sum" 2>/dev/null || true
}
