# Shared shell helpers for /verif/bin/check and /verif/bin/setup.
# Exit-code convention: 0 held, 1 violation, 2 build/harness trouble.

VERIF_ROOT="$(cd "$(dirname "${BASH_SOURCE[0]}")/.." && pwd)"
REPO_ROOT="${VERIF_REPO:-/repo}"
BUILD_DIR="$VERIF_ROOT/.build"

export GOFLAGS=-mod=mod GOPROXY=off GOSUMDB=off GOTOOLCHAIN=local
export GOCACHE="${GOCACHE:-$HOME/.cache/go-build}"
GO=go1.26.8

die2() { echo "check: $*" >&2; exit 2; }

need_tools() {
  command -v $GO >/dev/null || die2 "go1.26.8 not on PATH"
  mkdir -p "$BUILD_DIR"
  if [ ! -x "$BUILD_DIR/goyacc" ] || [ "$VERIF_ROOT/tools/goyacc/yacc.go" -nt "$BUILD_DIR/goyacc" ]; then
    (cd "$VERIF_ROOT/tools/goyacc" && $GO build -o "$BUILD_DIR/goyacc" .) || die2 "cannot build goyacc"
  fi
  if [ ! -x "$BUILD_DIR/simrewrite" ] || [ -n "$(find "$VERIF_ROOT/tools/simrewrite" -newer "$BUILD_DIR/simrewrite" -name '*.go' 2>/dev/null)" ]; then
    if [ -d "$VERIF_ROOT/tools/simrewrite" ]; then
      (cd "$VERIF_ROOT/tools/simrewrite" && $GO build -o "$BUILD_DIR/simrewrite" .) || die2 "cannot build simrewrite"
    fi
  fi
}

# mkscratch <dir>: copy /repo's working tree (no .git) into <dir>/repo and make
# the whole module buildable (generate leafref.go when the tree lacks it).
mkscratch() {
  local d="$1"
  mkdir -p "$d/repo" || die2 "mkdir scratch"
  rsync -a --exclude .git "$REPO_ROOT"/ "$d/repo"/ || die2 "copy of $REPO_ROOT failed"
  local lr="$d/repo/xpath/grammars/leafref"
  if [ -f "$lr/leafref.y" ] && [ ! -f "$lr/leafref.go" ]; then
    (cd "$lr" && "$BUILD_DIR/goyacc" -o leafref.go -p leafref leafref.y >/dev/null 2>&1 && rm -f y.output) || die2 "goyacc failed on leafref.y"
  fi
}

# mkharness <dir>: copy the Go side of /verif next to the repo copy.
mkharness() {
  local d="$1"
  mkdir -p "$d/h" || die2 "mkdir scratch/h"
  rsync -a "$VERIF_ROOT/go"/ "$d/h"/ || die2 "copy of harness failed"
  cp "$d/repo/go.sum" "$d/h/go.sum" 2>/dev/null || true
}

# mkoverlay: a copy of the standard library's sync/pool.go whose Put discards
# (behaviour Pool's contract allows). Under -race the stock Put drops items at
# random and its Put/Get are release/acquire-annotated, which both randomises
# and hides data races between simulated clients that merely share fmt's
# internal buffer pool. Only world C06 is built with this overlay.
mkoverlay() {
  local gr; gr="$($GO env GOROOT)"
  local src="$gr/src/sync/pool.go"
  [ -f "$src" ] || die2 "cannot find $src"
  mkdir -p "$BUILD_DIR/overlay"
  if [ ! -f "$BUILD_DIR/overlay/pool.go" ] || [ "$src" -nt "$BUILD_DIR/overlay/pool.go" ]; then
    python3 - "$src" "$BUILD_DIR/overlay/pool.go" <<'PY' || die2 "cannot patch sync/pool.go"
import sys,re
s=open(sys.argv[1]).read()
old="func (p *Pool) Put(x any) {\n\tif x == nil {\n\t\treturn\n\t}\n"
assert old in s, "unexpected sync/pool.go"
s=s.replace(old, old+"\tif race.Enabled {\n\t\treturn // verif overlay: never retain under the simulator\n\t}\n",1)
open(sys.argv[2],'w').write(s)
PY
  fi
  printf '{"Replace":{"%s":"%s"}}\n' "$src" "$BUILD_DIR/overlay/pool.go" > "$BUILD_DIR/overlay.json"
}
