# Shared shell helpers for /verif/bin/check and /verif/bin/setup.
# Exit-code convention: 0 held, 1 violation, 2 build/harness trouble.

VERIF_ROOT="$(cd "$(dirname "${BASH_SOURCE[0]}")/.." && pwd)"
REPO_ROOT="${VERIF_REPO:-/repo}"
BUILD_DIR="$VERIF_ROOT/.build"

export GOFLAGS=-mod=mod GOPROXY=off GOSUMDB=off GOTOOLCHAIN=local
export GOCACHE="${GOCACHE:-$HOME/.cache/go-build}"
GO=go1.26.8

die2() { echo "check: $*" >&2; exit 2; }

need_tools() {
  command -v $GO >/dev/null || die2 "go1.26.8 not on PATH"
  mkdir -p "$BUILD_DIR"
  if [ ! -x "$BUILD_DIR/goyacc" ] || [ "$VERIF_ROOT/tools/goyacc/yacc.go" -nt "$BUILD_DIR/goyacc" ]; then
    (cd "$VERIF_ROOT/tools/goyacc" && $GO build -o "$BUILD_DIR/goyacc" .) || die2 "cannot build goyacc"
  fi
  if [ ! -x "$BUILD_DIR/simrewrite" ] || [ -n "$(find "$VERIF_ROOT/tools/simrewrite" -newer "$BUILD_DIR/simrewrite" -name '*.go' 2>/dev/null)" ]; then
    if [ -d "$VERIF_ROOT/tools/simrewrite" ]; then
      (cd "$VERIF_ROOT/tools/simrewrite" && $GO build -o "$BUILD_DIR/simrewrite" .) || die2 "cannot build simrewrite"
    fi
  fi
}

# mkscratch <dir>: copy /repo's working tree (no .git) into <dir>/repo and make
# the whole module buildable (generate leafref.go when the tree lacks it).
mkscratch() {
  local d="$1"
  mkdir -p "$d/repo" || die2 "mkdir scratch"
  rsync -a --exclude .git "$REPO_ROOT"/ "$d/repo"/ || die2 "copy of $REPO_ROOT failed"
  local lr="$d/repo/xpath/grammars/leafref"
  if [ -f "$lr/leafref.y" ] && [ ! -f "$lr/leafref.go" ]; then
    (cd "$lr" && "$BUILD_DIR/goyacc" -o leafref.go -p leafref leafref.y >/dev/null 2>&1 && rm -f y.output) || die2 "goyacc failed on leafref.y"
  fi
}

# mkharness <dir>: copy the Go side of /verif next to the repo copy.
mkharness() {
  local d="$1"
  mkdir -p "$d/h" || die2 "mkdir scratch/h"
  rsync -a "$VERIF_ROOT/go"/ "$d/h"/ || die2 "copy of harness failed"
  cp "$d/repo/go.sum" "$d/h/go.sum" 2>/dev/null || true
}

# mkoverlay: a copy of the standard library's sync/pool.go for the -race build of
# world C06. Pools used by anything but the library under test (fmt's buffers
# ...) never retain: under -race the stock Put drops items at random and Put/Get
# are release/acquire-annotated, which both randomises reports and hides data
# races between simulated clients that merely share fmt's internal buffer pool
# (discarding is behaviour Pool's contract allows). Pools whose first user is a
# function of github.com/sdcio/yang-parser keep their items in a deterministic
# LIFO with the usual per-object release/acquire annotation, so that a
# sync.Pool introduced into the library is exercised (reuse, use-after-Put)
# instead of being silently neutralised.
mkoverlay() {
  local gr; gr="$($GO env GOROOT)"
  local src="$gr/src/sync/pool.go"
  [ -f "$src" ] || die2 "cannot find $src"
  mkdir -p "$BUILD_DIR/overlay"
  if [ ! -f "$BUILD_DIR/overlay/pool.go" ] || [ "$src" -nt "$BUILD_DIR/overlay/pool.go" ] || [ "$VERIF_ROOT/bin/lib.sh" -nt "$BUILD_DIR/overlay/pool.go" ]; then
    python3 - "$src" "$BUILD_DIR/overlay/pool.go" <<'PY' || die2 "cannot patch sync/pool.go"
import sys,re
s=open(sys.argv[1]).read()
# 1. two extra fields on Pool
old="\tNew func() any\n}"
assert old in s, "unexpected sync/pool.go (struct)"
s=s.replace(old, "\tNew func() any\n\n\t// verif overlay\n\tverifKind int8  // 0 unknown, 1 owned by the library under test, 2 anything else\n\tverifLIFO []any // deterministic free list of library-owned pools\n}",1)
# 2. Put: pools of the library under test keep their items in a deterministic LIFO (with the usual
#    release annotation on the object); all other pools (fmt's buffers etc.) never retain.
old="func (p *Pool) Put(x any) {\n\tif x == nil {\n\t\treturn\n\t}\n"
assert old in s, "unexpected sync/pool.go (Put)"
s=s.replace(old, old+"""\tif race.Enabled {
\t\tif p.verifOwned() {
\t\t\trace.ReleaseMerge(poolRaceAddr(x))
\t\t\trace.Disable()
\t\t\tp.verifLIFO = append(p.verifLIFO, x)
\t\t\trace.Enable()
\t\t}
\t\treturn // verif overlay: never retain in the randomised per-P structures under the simulator
\t}
""",1)
# 3. Get: serve library-owned pools from the LIFO
old="func (p *Pool) Get() any {\n"
assert old in s, "unexpected sync/pool.go (Get)"
s=s.replace(old, old+"""\tif race.Enabled && p.verifOwned() {
\t\trace.Disable()
\t\tvar x any
\t\tif n := len(p.verifLIFO); n > 0 {
\t\t\tx = p.verifLIFO[n-1]
\t\t\tp.verifLIFO[n-1] = nil
\t\t\tp.verifLIFO = p.verifLIFO[:n-1]
\t\t}
\t\trace.Enable()
\t\tif x != nil {
\t\t\trace.Acquire(poolRaceAddr(x))
\t\t\treturn x
\t\t}
\t\tif p.New != nil {
\t\t\treturn p.New()
\t\t}
\t\treturn nil
\t}
""",1)
s+="""
// verifOwned reports whether the pool is used by the library under test
// (decided once, by the first caller of Put or Get).
func (p *Pool) verifOwned() bool {
\trace.Disable()
\tdefer race.Enable()
\tif p.verifKind == 0 {
\t\tp.verifKind = 2
\t\tvar pcs [1]uintptr
\t\tif runtime.Callers(3, pcs[:]) == 1 {
\t\t\tif f := runtime.FuncForPC(pcs[0] - 1); f != nil {
\t\t\t\tname := f.Name()
\t\t\t\tconst pfx = "github.com/sdcio/yang-parser/"
\t\t\t\tif len(name) > len(pfx) && name[:len(pfx)] == pfx {
\t\t\t\t\tp.verifKind = 1
\t\t\t\t}
\t\t\t}
\t\t}
\t}
\treturn p.verifKind == 1
}
"""
open(sys.argv[2],'w').write(s)
PY
  fi
  printf '{"Replace":{"%s":"%s"}}\n' "$src" "$BUILD_DIR/overlay/pool.go" > "$BUILD_DIR/overlay.json"
}
