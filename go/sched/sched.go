// Package sched is the cooperative scheduler for real goroutines running the
// instrumented library (world C06).
//
// Exactly one worker holds the baton at any time; a worker gives it up only
// inside Yield/Blocked/Unlocked (called from simrewrite's hooks and from the
// simulated data tree) or when its operation list is finished. The scheduler
// (the harness's main goroutine) then draws the next worker from the tape.
//
// The baton is a pipe per worker, read and written with raw
// syscall.Syscall(SYS_READ/SYS_WRITE), and all scheduler state shared between
// goroutines is touched only inside //go:norace functions. Both are
// deliberate: Go's race detector is happens-before based; a channel, mutex or
// atomic hand-off would add an edge at every switch and make the serialised
// execution look perfectly synchronised. Raw syscalls and norace functions are
// invisible to it, so its vector clocks contain only the PROGRAM's own
// synchronisation — whether two conflicting accesses are ordered depends on
// the library's locks and on which accesses the schedule makes happen, not on
// timing.
package sched

import (
	"runtime"
	"syscall"
	"unsafe"
)

const (
	stYield   = 'Y'
	stBlocked = 'B'
	stUnlock  = 'U'
	stDone    = 'D'
)

type Worker struct {
	ID       int
	goid     uint64
	rfd, wfd int
	status   byte
	site     string
	blocked  bool
	done     bool
	Holding  int // locks currently held (maintained by Acquired/Unlocked)
	Fn       func()
}

// Step is one entry of the recorded schedule.
type Step struct {
	Worker int
	Kind   byte
	Site   string
}

type Sched struct {
	srfd, swfd int
	Workers    []*Worker
	Steps      []Step
	MaxSteps   int
	// per-run site mask: a Yield site is a switch point iff hash(site)%16 < Level
	Level    uint32
	Stmt     bool // statement-level yield sites (":stmt") are switch points too
	Deadlock bool
	Overrun  bool
	pick     func(runnable []int, last int) int
	spawn    func(body func())
	// AllWorkers: every goroutine that can reach a hook is a worker of this scheduler (worlds in which the
	// rewriter turned every go statement of the instrumented packages into a Spawn). The check "is the
	// caller the baton holder?" is then skipped: it reads the goroutine id off a stack trace, which costs
	// tens of microseconds on the deep stacks of a recursive compiler.
	AllWorkers bool
	// YieldBudget (0: none): after this many steps the OPTIONAL switch points (Yield) stop being switch
	// points; locks, channel operations, callbacks and goroutine creation stay. A run that is merely long
	// (a big input under a dense yield level) then finishes at native speed instead of looking like a run
	// that makes no progress; MaxSteps remains the bound on the steps that cannot be skipped.
	YieldBudget int
	// alone: exactly one worker is alive (set by the scheduler before it hands out the baton, cleared by
	// Spawn): an optional switch point has nothing to switch to and is skipped. Decided by the
	// scheduler's own state only, hence as deterministic as everything else here.
	alone bool
}

// the worker currently holding the baton, and the active scheduler.
// Touched only from //go:norace functions.
var cur *Worker
var active *Sched

func mkpipe() (int, int) {
	var p [2]int
	if err := syscall.Pipe(p[:]); err != nil {
		panic(err)
	}
	return p[0], p[1]
}

//go:norace
func rawWrite(fd int, b byte) {
	buf := [1]byte{b}
	for {
		n, _, e := syscall.Syscall(syscall.SYS_WRITE, uintptr(fd), uintptr(unsafe.Pointer(&buf[0])), 1)
		if n == 1 {
			return
		}
		if e != syscall.EINTR && e != syscall.EAGAIN {
			panic("sched: baton write failed")
		}
	}
}

//go:norace
func rawRead(fd int) byte {
	var buf [1]byte
	for {
		n, _, e := syscall.Syscall(syscall.SYS_READ, uintptr(fd), uintptr(unsafe.Pointer(&buf[0])), 1)
		if n == 1 {
			return buf[0]
		}
		if e != syscall.EINTR && e != syscall.EAGAIN {
			panic("sched: baton read failed")
		}
	}
}

func New(pick func(runnable []int, last int) int) *Sched {
	s := &Sched{MaxSteps: 20000, Level: 16, pick: pick}
	s.srfd, s.swfd = mkpipe()
	return s
}

func (s *Sched) Add(fn func()) *Worker {
	w := &Worker{ID: len(s.Workers), Fn: fn}
	w.rfd, w.wfd = mkpipe()
	s.alone = false
	s.Workers = append(s.Workers, w)
	return w
}

func (s *Sched) Close() {
	syscall.Close(s.srfd)
	syscall.Close(s.swfd)
	for _, w := range s.Workers {
		syscall.Close(w.rfd)
		syscall.Close(w.wfd)
	}
}

//go:norace
func fnv(s string) uint32 {
	h := uint32(2166136261)
	for i := 0; i < len(s); i++ {
		h ^= uint32(s[i])
		h *= 16777619
	}
	return h
}

// worker side ---------------------------------------------------------------

// goid returns the id of the calling goroutine (parsed from the header of its
// stack trace; about a microsecond, paid only at real switch points).
//
//go:norace
func goid() uint64 {
	var buf [40]byte
	n := runtime.Stack(buf[:], false)
	// "goroutine 123 ["
	var id uint64
	for i := len("goroutine "); i < n && buf[i] >= '0' && buf[i] <= '9'; i++ {
		id = id*10 + uint64(buf[i]-'0')
	}
	return id
}

// foreign reports whether the caller is NOT the worker that holds the baton: a
// goroutine the library started on its own (a finaliser, a helper goroutine of
// a mutated tree) must never touch scheduler state.
//
//go:norace
func foreign(w *Worker) bool {
	if w == nil {
		return true
	}
	if s := active; s != nil && s.AllWorkers {
		return false
	}
	return goid() != w.goid
}

//go:norace
func handoff(kind byte, site string) {
	w := cur
	s := active
	if w == nil || s == nil {
		return
	}
	if foreign(w) {
		if kind == stBlocked {
			runtime.Gosched() // a foreign goroutine waiting for a lock: let the holder's OS thread get on
		}
		return
	}
	w.status = kind
	w.site = site
	rawWrite(s.swfd, kind)
	rawRead(w.rfd)
	cur = w
}

// Yield is a potential switch point (function entry, loop head, callback).
//
//go:norace
func Yield(site string) {
	s := active
	if cur == nil || s == nil {
		return
	}
	if n := len(site); n > 5 && site[n-5:] == ":stmt" && !s.Stmt {
		return
	}
	if s.Level < 16 && fnv(site)%16 >= s.Level {
		return
	}
	if s.alone {
		return
	}
	if s.YieldBudget > 0 && len(s.Steps) >= s.YieldBudget {
		return
	}
	handoff(stYield, site)
}

// Always is a switch point regardless of the site mask (mock callbacks).
//
//go:norace
func Always(site string) { handoff(stYield, site) }

// Blocked: the worker could not take a lock; it must not run again until
// somebody unlocked.
//
//go:norace
func Blocked(site string) { handoff(stBlocked, site) }

// Acquired: the worker now holds a lock. This is a switch point: parking a
// client inside its critical section is what lets the others run into the lock.
//
//go:norace
func Acquired(site string) {
	if w := cur; w != nil && !foreign(w) {
		w.Holding++
		handoff(stYield, site)
	}
}

// Unlocked: the worker released a lock.
//
//go:norace
func Unlocked(site string) {
	w := cur
	if w == nil || foreign(w) {
		return
	}
	if w.Holding > 0 {
		w.Holding--
	}
	handoff(stUnlock, site)
}

// HoldsLock reports whether worker id holds a lock (scheduler side only).
//
//go:norace
func (s *Sched) HoldsLock(id int) bool {
	return id >= 0 && id < len(s.Workers) && s.Workers[id].Holding > 0
}

//go:norace
func (w *Worker) body(s *Sched) {
	w.goid = goid()
	rawRead(w.rfd) // wait for the first baton
	cur = w
	w.Fn()
	cur = nil
	w.status = stDone
	rawWrite(s.swfd, stDone)
}

// Spawn turns fn into a new worker of the active scheduler (called from a
// worker: simulated `go` statement). Without a scheduler it is a plain `go`.
//
//go:norace
func Spawn(site string, fn func()) {
	s := active
	if s == nil || cur == nil || foreign(cur) {
		go fn()
		return
	}
	w := &Worker{ID: len(s.Workers), Fn: fn}
	w.rfd, w.wfd = mkpipe()
	s.Workers = append(s.Workers, w)
	s.spawn(func() { w.body(s) })
	handoff(stYield, site) // creation is a switch point: the child may run first
}

// WorkerState describes a worker after Run returned (for leak/deadlock reports).
type WorkerState struct {
	ID      int
	Done    bool
	Blocked bool
	Site    string
}

//go:norace
func (s *Sched) States() []WorkerState {
	var out []WorkerState
	for _, w := range s.Workers {
		out = append(out, WorkerState{w.ID, w.done, w.blocked, w.site})
	}
	return out
}

// StopWhenDone makes Run return as soon as worker `id` is done AND every other
// worker is done or blocked (nothing else can happen without it).
// scheduler side ------------------------------------------------------------

// Run starts every worker and schedules them until all are done, a deadlock
// is detected or MaxSteps is exceeded. join is called after the last worker
// finished and must wait for the worker goroutines (sync.WaitGroup): the only
// happens-before edges between workers and the scheduler are goroutine start
// and this final join.
//
//go:norace
func (s *Sched) Run(spawn func(body func())) {
	active = s
	s.spawn = spawn
	for _, w := range s.Workers {
		w := w
		spawn(func() { w.body(s) })
	}
	last := -1
	for {
		var runnable []int
		alive := 0
		for _, w := range s.Workers {
			if w.done {
				continue
			}
			alive++
			if !w.blocked {
				runnable = append(runnable, w.ID)
			}
		}
		if alive == 0 {
			break
		}
		s.alone = alive == 1
		if len(runnable) == 0 {
			s.Deadlock = true
			break
		}
		if len(s.Steps) >= s.MaxSteps {
			s.Overrun = true
			break
		}
		id := runnable[0]
		if len(runnable) > 1 {
			id = s.pick(runnable, last)
		}
		w := s.Workers[id]
		last = id
		rawWrite(w.wfd, 'G')
		rawRead(s.srfd)
		s.Steps = append(s.Steps, Step{w.ID, w.status, w.site})
		switch w.status {
		case stDone:
			w.done = true
		case stBlocked:
			w.blocked = true
		case stUnlock:
			for _, o := range s.Workers {
				o.blocked = false
			}
		}
	}
	active = nil
}

// Abandon is called after a deadlock or overrun: the parked workers can never
// be resumed safely, the process must end.
func (s *Sched) Abandoned() bool { return s.Deadlock || s.Overrun }
