// Package super is the supervisor shared by all simulated worlds: it fans a
// seed out over worker processes, attributes crashes and hangs to the case that
// was running, confirms and minimises violations, writes replay files, matches
// violations against the committed known-findings file and writes the evidence
// file from counters measured by the run itself.
//
// Exit codes of Main: 0 property held on everything explored (KNOWN-FINDING
// lines possible), 1 violation (VIOLATION line printed), 2 harness trouble.
package super

import (
	"bufio"
	"encoding/json"
	"flag"
	"fmt"
	"hash/fnv"
	"os"
	"os/exec"
	"path/filepath"
	"runtime"
	"sort"
	"strconv"
	"strings"
	"sync"
	"sync/atomic"
	"syscall"
	"time"

	"verif/tape"
)

// Violation is what a world reports for one failing case.
type Violation struct {
	Class  string `json:"class"`  // e.g. error-replaced, panic-escaped, leak, hang, crash, race, divergence
	Sig    string `json:"sig"`    // stable signature: class|library site ...
	Detail string `json:"detail"` // human readable, may contain the input
}

// Stats are the counters a world keeps while running cases. Everything in the
// evidence file comes from here. Not safe for concurrent use: one per process.
type Stats struct {
	Counters map[string]int64    `json:"counters"`
	Distinct map[string][]uint64 `json:"distinct"` // named sets of 64-bit hashes
	Samples  []any               `json:"samples"`
	dset     map[string]map[uint64]struct{}
	cap      int
}

func NewStats() *Stats {
	return &Stats{Counters: map[string]int64{}, Distinct: map[string][]uint64{}, dset: map[string]map[uint64]struct{}{}, cap: 400000}
}

func (s *Stats) Add(name string, n int64) { s.Counters[name] += n }
func (s *Stats) Inc(name string)          { s.Counters[name]++ }
func (s *Stats) Max(name string, v int64) {
	if v > s.Counters[name] {
		s.Counters[name] = v
	}
}

func Hash(parts ...string) uint64 {
	h := fnv.New64a()
	for _, p := range parts {
		h.Write([]byte(p))
		h.Write([]byte{0})
	}
	return h.Sum64()
}

// Seen records a member of a named distinct-set.
func (s *Stats) Seen(set string, h uint64) {
	m := s.dset[set]
	if m == nil {
		m = map[uint64]struct{}{}
		s.dset[set] = m
	}
	if len(m) >= s.cap {
		s.Counters["distinct_cap_hit:"+set]++
		return
	}
	m[h] = struct{}{}
}

func (s *Stats) Sample(v any) {
	if len(s.Samples) < 6 {
		s.Samples = append(s.Samples, v)
	}
}

func (s *Stats) finish() {
	for k, m := range s.dset {
		l := make([]uint64, 0, len(m))
		for h := range m {
			l = append(l, h)
		}
		sort.Slice(l, func(i, j int) bool { return l[i] < l[j] })
		s.Distinct[k] = l
	}
}

// World is one simulated world (one property).
type World interface {
	Property() string
	Level() string // exploration | fault_enumeration
	// RunCase runs one case drawn from the tape. It must be a pure function of
	// the tape contents (and of the code under test). st may be nil (replay /
	// minimisation): then nothing is counted.
	RunCase(t *tape.Tape, st *Stats) *Violation
	// Describe fills the descriptive parts of the evidence file.
	Describe() Description
}

type Description struct {
	Rule        string         // how cases are generated; what makes one distinct and non-trivial
	DistinctSet string         // name of the Stats set that measures distinct_nontrivial
	Assumptions []string       // trusted base
	Components  map[string]any // which components ran real code / stubs
	FaultKinds  []string       // counters named fault:<kind> are reported as fired counts
	Extra       map[string]any
}

// Config is set by each world's main before calling Main.
type Config struct {
	QuickCases       int           // cases per worker process in quick tier
	ThoroughSeconds  int           // wall budget per worker in thorough tier
	CasesPerProcess  int           // >0: processes are restarted every n cases (fresh process state)
	CaseTimeout      time.Duration // a case not finished after this long is a hang candidate
	MinimiseBudget   int
	Procs            int
	CrashIsViolation bool // a worker that dies inside a case is a property violation (else harness trouble)
	HangIsViolation  bool
	SubprocMinimise  bool // violations must be confirmed/minimised in fresh processes (crash/hang/race worlds)
	ExtraWorkerEnv   []string
	MemLimitMB       int
	SubprocBudget    int           // minimisation attempts for violations that need a fresh process each (default 40)
	SelfArgs         []string      // arguments every child invocation needs first (test binaries: -test.run=...)
	RaceLog          bool          // children get GORACE=log_path=$VERIF_WORKDIR/race exitcode=0
	WatchdogTimeout  time.Duration // in-process liveness bound per case: dump stacks, exit 3 (0 = CaseTimeout/2)
}

// HangInfo, when set by a world, is printed by the watchdog before the stack dump.
var HangInfo func() string

var caseStartNs atomic.Int64

func (c Config) watchdog() time.Duration {
	if c.WatchdogTimeout > 0 {
		return c.WatchdogTimeout
	}
	return c.CaseTimeout / 2
}

// startWatchdog bounds the wall time of a single case. It consults a real
// clock only as a liveness bound on a deterministic sequential computation; it
// takes no part in scheduling. On expiry it dumps every goroutine and exits 3.
func startWatchdog(d time.Duration) {
	go func() {
		for {
			time.Sleep(50 * time.Millisecond)
			s := caseStartNs.Load()
			if s != 0 && time.Since(time.Unix(0, s)) > d {
				buf := make([]byte, 4<<20)
				n := runtime.Stack(buf, true)
				info := ""
				if HangInfo != nil {
					info = HangInfo()
				}
				fmt.Fprintf(os.Stderr, "\nVERIF-HANG after %s\n%s\n%s\n", d, info, buf[:n])
				os.Exit(3)
			}
		}
	}()
}

func beat() { caseStartNs.Store(time.Now().UnixNano()) }

// Tier is "quick" or "thorough" (workers inherit it from the supervisor).
func Tier() string {
	if t := os.Getenv("VERIF_WORKER_TIER"); t != "" {
		return t
	}
	return *fTier
}

var endProcess bool

// EndProcessAfterCase: the world's process state is unusable after this case
// (e.g. parked goroutines that can never be resumed).
func EndProcessAfterCase() { endProcess = true }

var troubleNotes []string

// Trouble records a harness problem; the run ends with exit 2 unless a violation is found.
func Trouble(s string) { troubleNotes = append(troubleNotes, s) }

// SetHangInfo lets a world say what it was working on, for watchdog dumps.
func SetHangInfo(f func() string) {
	HangInfo = f
	if *fDescribe {
		fmt.Fprintf(os.Stderr, "CASE-DESCRIPTION\n%s\nEND-CASE-DESCRIPTION\n", f())
	}
}

type caseMsg struct {
	T     string     `json:"t"`
	Case  int        `json:"case,omitempty"`
	Seed  uint64     `json:"seed,omitempty"`
	Viol  *Violation `json:"viol,omitempty"`
	Tape  []uint32   `json:"tape,omitempty"`
	Stats *Stats     `json:"stats,omitempty"`
	Cases int        `json:"cases,omitempty"`
	Note  string     `json:"note,omitempty"`
	// Prelude: seeds of the cases this worker process ran before the reported one (a violation may
	// depend on what the process did earlier; the replay runs them first)
	Prelude []uint64 `json:"prelude,omitempty"`
}

type ReplayFile struct {
	Property string   `json:"property"`
	Seed     uint64   `json:"case_seed"`
	Tape     []uint32 `json:"tape"`
	Sig      string   `json:"expected_signature"`
	Prelude  []uint64 `json:"prelude_case_seeds,omitempty"` // cases the worker process had run before (run first on replay)
	Class    string   `json:"class"`
	Detail   string   `json:"detail"`
	Note     string   `json:"note,omitempty"`
}

type KnownFinding struct {
	Property  string `json:"property"`
	Status    string `json:"status"` // known | fixed
	Signature string `json:"signature"`
	What      string `json:"what"`
	Commit    string `json:"commit,omitempty"`
	Line      string `json:"line,omitempty"`
}

// ---------------------------------------------------------------------------

var (
	fMode     = flag.String("mode", "super", "super | worker | replay | one")
	fTier     = flag.String("tier", "quick", "quick | thorough")
	fSeed     = flag.Uint64("seed", 1, "VERIF_SEED")
	fFirst    = flag.Int("first", 0, "worker: index of first case")
	fCount    = flag.Int("count", 0, "worker: number of cases (0 = until time budget)")
	fSeconds  = flag.Int("seconds", 0, "worker: wall budget")
	fFile     = flag.String("file", "", "replay file / tape file")
	fVerif    = flag.String("verif", "/verif", "root of /verif (evidence, replays, known findings)")
	fProcs    = flag.Int("procs", 0, "worker processes (0 = config default)")
	fCases    = flag.Int("cases", 0, "override cases per worker (quick)")
	fSecs     = flag.Int("secs", 0, "override seconds per worker (thorough)")
	fNoEvid   = flag.Bool("no-evidence", false, "do not write the evidence file")
	fDescribe = flag.Bool("describe", false, "one/replay: print the case description before running it")
	fWd       = flag.Int("wd", 0, "one: watchdog seconds override")
	fEvents   = flag.String("events", "", "worker: write one line per case with its outcome hash (determinism self-test)")
)

// CaseSeed derives the seed of case i of a run.
func CaseSeed(seed uint64, i int) uint64 { return tape.Mix(seed, uint64(i)) }

// EventHook lets a world add an outcome hash per case for the determinism
// self-test. Worlds call Event(...) from RunCase when st != nil.
var eventBuf *bufio.Writer

func Event(format string, args ...any) {
	if eventBuf != nil {
		fmt.Fprintf(eventBuf, format+" digest=%016x\n", append(args, caseDigest)...)
	}
}

// Note folds observable behaviour of the current case (outcomes, traces,
// schedules) into the case digest that the determinism self-test compares.
// It costs nothing unless an event log was requested.
var caseDigest uint64

func Note(parts ...string) {
	if eventBuf == nil {
		return
	}
	h := fnv.New64a()
	var b [8]byte
	for i := range b {
		b[i] = byte(caseDigest >> (8 * i))
	}
	h.Write(b[:])
	for _, p := range parts {
		h.Write([]byte(p))
		h.Write([]byte{0})
	}
	caseDigest = h.Sum64()
}

// Noting reports whether Note does anything (lets worlds skip building strings).
func Noting() bool { return eventBuf != nil }

func Main(w World, cfg Config) {
	flag.Parse()
	switch *fMode {
	case "worker":
		os.Exit(workerMain(w, cfg))
	case "one":
		os.Exit(oneMain(w, cfg))
	case "replay":
		os.Exit(replayMain(w, cfg))
	default:
		os.Exit(superMain(w, cfg))
	}
}

func emit(out *bufio.Writer, m caseMsg) {
	b, _ := json.Marshal(m)
	out.Write(b)
	out.WriteByte('\n')
	out.Flush()
}

// silenceStdout: the worker protocol keeps the real stdout; whatever the library
// under test prints (debug output) goes to /dev/null.
func silenceStdout() *os.File {
	real := os.Stdout
	if dn, err := os.OpenFile(os.DevNull, os.O_WRONLY, 0); err == nil {
		os.Stdout = dn
	}
	return real
}

func workerMain(w World, cfg Config) int {
	out := bufio.NewWriterSize(silenceStdout(), 1<<16)
	st := NewStats()
	if *fEvents != "" {
		f, err := os.Create(*fEvents)
		if err != nil {
			fmt.Fprintln(os.Stderr, "events:", err)
			return 2
		}
		eventBuf = bufio.NewWriter(f)
		defer func() { eventBuf.Flush(); f.Close() }()
	}
	start := time.Now()
	n := 0
	seenSig := map[string]bool{}
	var ranSeeds []uint64 // seeds of the cases this process has run so far
	startWatchdog(cfg.watchdog())
	for i := *fFirst; ; i++ {
		if *fCount > 0 && n >= *fCount {
			break
		}
		if *fSeconds > 0 && time.Since(start) > time.Duration(*fSeconds)*time.Second {
			break
		}
		if *fCount == 0 && *fSeconds == 0 {
			break
		}
		cs := CaseSeed(*fSeed, i)
		prelude := append([]uint64(nil), ranSeeds...)
		ranSeeds = append(ranSeeds, cs)
		emit(out, caseMsg{T: "start", Case: i, Seed: cs})
		beat()
		caseDigest = 0
		t := tape.New(cs)
		v := w.RunCase(t, st)
		n++
		for _, tn := range troubleNotes {
			emit(out, caseMsg{T: "trouble", Case: i, Seed: cs, Note: tn})
		}
		troubleNotes = nil
		if v != nil && !seenSig[v.Sig] {
			seenSig[v.Sig] = true
			rec := t.Recorded()
			if !cfg.SubprocMinimise {
				// confirm determinism of the case before believing it, then shrink in-process
				v2 := w.RunCase(tape.Replay(rec), nil)
				if v2 == nil || v2.Sig != v.Sig {
					emit(out, caseMsg{T: "flaky", Case: i, Seed: cs, Viol: v, Tape: rec, Note: "violation did not reproduce from its own tape in the same process"})
					continue
				}
				calls := 0
				min := tape.Minimise(rec, v.Sig, cfg.MinimiseBudget, func(c []uint32) string {
					if calls++; calls%50 == 0 {
						emit(out, caseMsg{T: "beat", Case: i})
					}
					beat()
					r := w.RunCase(tape.Replay(c), nil)
					if r == nil {
						return ""
					}
					return r.Sig
				})
				if r := w.RunCase(tape.Replay(min), nil); r != nil && r.Sig == v.Sig {
					v, rec = r, min
				}
			}
			emit(out, caseMsg{T: "viol", Case: i, Seed: cs, Viol: v, Tape: rec, Prelude: prelude})
		}
		if endProcess {
			break
		}
	}
	st.finish()
	emit(out, caseMsg{T: "done", Stats: st, Cases: n})
	return 0
}

// oneMain runs a single case from a tape file (or a case seed) and prints its verdict.
func oneMain(w World, cfg Config) int {
	wd := 3 * cfg.watchdog()
	if *fWd > 0 {
		wd = time.Duration(*fWd) * time.Second
	}
	startWatchdog(wd)
	beat()
	var t *tape.Tape
	if *fFile != "" {
		b, err := os.ReadFile(*fFile)
		if err != nil {
			fmt.Fprintln(os.Stderr, err)
			return 2
		}
		var rec []uint32
		if err := json.Unmarshal(b, &rec); err != nil {
			fmt.Fprintln(os.Stderr, err)
			return 2
		}
		t = tape.Replay(rec)
	} else {
		t = tape.New(*fSeed)
	}
	real := silenceStdout()
	v := w.RunCase(t, nil)
	out := bufio.NewWriter(real)
	emit(out, caseMsg{T: "one", Viol: v, Tape: t.Recorded()})
	return 0
}

func replayMain(w World, cfg Config) int {
	b, err := os.ReadFile(*fFile)
	if err != nil {
		fmt.Fprintln(os.Stderr, "replay:", err)
		return 2
	}
	var rf ReplayFile
	if err := json.Unmarshal(b, &rf); err != nil {
		fmt.Fprintln(os.Stderr, "replay:", err)
		return 2
	}
	var v *Violation
	if cfg.SubprocMinimise {
		sig, det, _ := runOneSubproc(rf.Tape, cfg, confirmTimeout(cfg))
		if sig != "" {
			v = &Violation{Sig: sig, Detail: det, Class: strings.SplitN(sig, "|", 2)[0]}
		}
	} else {
		for _, ps := range rf.Prelude {
			w.RunCase(tape.New(ps), nil) // what the worker process had done before the reported case
		}
		v = w.RunCase(tape.Replay(rf.Tape), nil)
	}
	if v == nil {
		fmt.Printf("REPLAY property=%s held (expected %s)\n", rf.Property, rf.Sig)
		return 0
	}
	fmt.Printf("REPLAY property=%s signature=%s\n%s\n", rf.Property, v.Sig, v.Detail)
	if v.Sig == rf.Sig {
		fmt.Printf("VIOLATION property=%s replay=%s\n", rf.Property, *fFile)
	} else {
		fmt.Printf("VIOLATION property=%s replay=%s (different signature than recorded: %s)\n", rf.Property, *fFile, rf.Sig)
	}
	return 1
}

// ---------------------------------------------------------------------------
// supervisor

type found struct {
	v       Violation
	seed    uint64
	tape    []uint32
	note    string
	subproc bool // found through a dying/hanging worker: confirm and shrink in fresh processes
	prelude []uint64
}

type job struct {
	idx   int
	first int
	count int
	secs  int
	seed  uint64
}

func self() string {
	p, err := os.Executable()
	if err != nil {
		return os.Args[0]
	}
	return p
}

// runOneSubproc runs a single tape in a fresh process. Returns the signature
// ("" if the property held), detail, and whether the process behaved.
func runOneSubproc(rec []uint32, cfg Config, timeout time.Duration) (sig, detail string, ok bool) {
	dir, err := os.MkdirTemp("", "verif-one-")
	if err != nil {
		return "", err.Error(), false
	}
	defer os.RemoveAll(dir)
	tf := filepath.Join(dir, "tape.json")
	b, _ := json.Marshal(rec)
	os.WriteFile(tf, b, 0o644)
	cmd := exec.Command(self(), append(append([]string{}, cfg.SelfArgs...), "-mode=one", "-file="+tf, fmt.Sprintf("-wd=%d", wdSeconds(timeout)))...)
	cmd.Env = append(os.Environ(), cfg.ExtraWorkerEnv...)
	cmd.Env = append(cmd.Env, "VERIF_WORKDIR="+dir, "VERIF_WORKER_TIER="+Tier())
	if cfg.RaceLog {
		cmd.Env = append(cmd.Env, "GORACE=log_path="+dir+"/race exitcode=0 halt_on_error=0 atexit_sleep_ms=0")
	}
	var stdout, stderr strings.Builder
	cmd.Stdout = &stdout
	cmd.Stderr = &stderr
	cmd.SysProcAttr = &syscall.SysProcAttr{Setpgid: true}
	if err := cmd.Start(); err != nil {
		return "", err.Error(), false
	}
	done := make(chan error, 1)
	go func() { done <- cmd.Wait() }()
	select {
	case err = <-done:
	case <-time.After(timeout):
		syscall.Kill(-cmd.Process.Pid, syscall.SIGKILL)
		<-done
		if cfg.HangIsViolation {
			return "hang|" + hangSite(stderr.String()), "case did not return within " + timeout.String(), true
		}
		return "", "timeout", false
	}
	if strings.Contains(stderr.String(), "VERIF-HANG") {
		if cfg.HangIsViolation {
			return "hang|" + hangSite(stderr.String()), hangDetail(stderr.String()), true
		}
		return "", "watchdog", false
	}
	for _, line := range strings.Split(stdout.String(), "\n") {
		if strings.HasPrefix(line, `{"t":"one"`) {
			var m caseMsg
			if json.Unmarshal([]byte(line), &m) == nil {
				if m.Viol == nil {
					return "", "", true
				}
				return m.Viol.Sig, m.Viol.Detail, true
			}
		}
	}
	if err != nil && cfg.CrashIsViolation {
		return "crash|" + CrashSite(stderr.String()), tail(stderr.String(), 4000), true
	}
	return "", "no verdict line; stderr: " + tail(stderr.String(), 2000), false
}

func hangDetail(stderr string) string {
	i := strings.Index(stderr, "VERIF-HANG")
	if i < 0 {
		return "case did not return"
	}
	return "case did not return within the liveness bound; watchdog dump:\n" + head(stderr[i:], 3500)
}

// wdSeconds: the in-process watchdog of a child fires a little before the
// parent's kill timeout so that we get the stack dump rather than a SIGKILL.
func wdSeconds(timeout time.Duration) int {
	s := int(timeout.Seconds()) - 2
	if s < 1 {
		s = 1
	}
	return s
}

// confirmTimeout bounds a confirmation run of one case in a fresh process:
// three times the in-process liveness bound (the child's own watchdog fires
// first and leaves a stack dump) plus slack.
func confirmTimeout(cfg Config) time.Duration { return 3*cfg.watchdog() + 5*time.Second }

var abort atomic.Bool

var noteMu sync.Mutex
var slowNotes []string

func tail(s string, n int) string {
	if len(s) > n {
		return "..." + s[len(s)-n:]
	}
	return s
}

func head(s string, n int) string {
	if len(s) > n {
		return s[:n] + "..."
	}
	return s
}

// hangSite derives a stable site from a watchdog stack dump: the library frames
// of the goroutines that were running (a spin), else of those blocked.
// UnsimulatedBlock prefixes the site of a hang that is an artefact of the simulation (see hangSite).
const UnsimulatedBlock = "unsimulated-block@"

func hangSite(stderr string) string {
	i := strings.Index(stderr, "VERIF-HANG")
	if i < 0 {
		return "no-return"
	}
	var running, blocked, realBlocked []string
	underScheduler := strings.Contains(stderr[i:], "verif/sched.rawRead")
	for _, b := range strings.Split(stderr[i:], "\n\n") {
		lines := strings.Split(b, "\n")
		for len(lines) > 0 && !strings.HasPrefix(lines[0], "goroutine ") {
			lines = lines[1:]
		}
		if len(lines) == 0 || strings.Contains(b, "super.startWatchdog") {
			continue
		}
		var lib []string
		for _, l := range lines[1:] {
			if strings.HasPrefix(l, "github.com/sdcio/yang-parser/") {
				fn := strings.TrimPrefix(l, "github.com/sdcio/yang-parser/")
				if k := strings.LastIndex(fn, "("); k > 0 {
					fn = fn[:k]
				}
				lib = append(lib, fn)
			}
		}
		if len(lib) == 0 {
			continue
		}
		// A spin is sampled at an arbitrary instant, so inner frames vary from
		// dump to dump; the outermost two library frames are stable.
		site := lib[len(lib)-1]
		if len(lib) >= 2 {
			site = lib[len(lib)-1] + ">" + lib[len(lib)-2]
		}
		if strings.Contains(lines[0], "[running") || strings.Contains(lines[0], "[runnable") {
			running = append(running, site)
		} else {
			blocked = append(blocked, site)
			if !strings.Contains(b, "verif/sched.rawRead") {
				realBlocked = append(realBlocked, site) // blocked in something that is not the scheduler's own parking
			}
		}
	}
	sort.Strings(running)
	sort.Strings(blocked)
	sort.Strings(realBlocked)
	if len(running) > 0 {
		// Which goroutines of a livelock happen to be on a processor at the instant of the dump is
		// real-time chance (two goroutines handing items to each other are seen as one, the other
		// or both). Every library goroutine that is still there names the spin the same way each time.
		all := append(append([]string{}, running...), blocked...)
		sort.Strings(all)
		uniq := all[:0]
		for i, x := range all {
			if i == 0 || x != all[i-1] {
				uniq = append(uniq, x)
			}
		}
		return "spin@" + strings.Join(uniq, ",")
	}
	if underScheduler && len(realBlocked) > 0 {
		// Under the baton scheduler exactly one worker runs. If that one blocks in a primitive the
		// simulator has no seam for (sync.Once, sync.Cond, a channel, a WaitGroup ...) while the worker
		// that would release it is parked by the scheduler, nothing moves - because of the simulation,
		// not necessarily because of the code. The simulator cannot decide this case.
		return UnsimulatedBlock + strings.Join(realBlocked, ",")
	}
	if len(blocked) > 0 {
		return "blocked@" + strings.Join(blocked, ",")
	}
	return "no-return"
}

// CrashSite extracts a stable site from a Go fatal error / panic dump: the kind
// of failure and the first frames that belong to the library under test.
func CrashSite(stderr string) string {
	kind := "exit"
	lines := strings.Split(stderr, "\n")
	for _, l := range lines {
		if strings.HasPrefix(l, "fatal error: ") {
			kind = strings.TrimPrefix(l, "fatal error: ")
			break
		}
		if strings.HasPrefix(l, "panic: ") {
			kind = "panic"
			break
		}
		if strings.HasPrefix(l, "runtime: goroutine stack exceeds") {
			kind = "stack overflow"
			break
		}
	}
	var frames []string
	if kind == "stack overflow" {
		// the top of an overflowing stack is arbitrary; the recursion cycle (library
		// functions that repeat in the dump) is what identifies the defect
		cnt := map[string]int{}
		for _, l := range lines {
			if strings.HasPrefix(l, "github.com/sdcio/yang-parser/") {
				fn := l
				if i := strings.Index(fn, "(0x"); i > 0 {
					fn = fn[:i]
				} else if i := strings.LastIndex(fn, "("); i > 0 {
					fn = fn[:i]
				}
				cnt[strings.TrimPrefix(fn, "github.com/sdcio/yang-parser/")]++
			}
		}
		max := 0
		for _, n := range cnt {
			if n > max {
				max = n
			}
		}
		for fn, n := range cnt {
			if n >= 3 && n*3 >= max && !strings.Contains(fn, "zz_verifsimrt") {
				frames = append(frames, fn)
			}
		}
		sort.Strings(frames)
		return kind + "@" + strings.Join(frames, ",")
	}
	for _, l := range lines {
		if strings.HasPrefix(l, "github.com/sdcio/yang-parser/") {
			fn := l
			if i := strings.LastIndex(fn, "("); i > 0 {
				fn = fn[:i]
			}
			fn = strings.TrimPrefix(fn, "github.com/sdcio/yang-parser/")
			dup := false
			for _, f := range frames {
				if f == fn {
					dup = true
				}
			}
			if !dup {
				frames = append(frames, fn)
			}
			if len(frames) >= 3 {
				break
			}
		}
	}
	sort.Strings(frames)
	return kind + "@" + strings.Join(frames, ",")
}

func superMain(w World, cfg Config) int {
	t0 := time.Now()
	prop := w.Property()
	procs := cfg.Procs
	if *fProcs > 0 {
		procs = *fProcs
	}
	if procs <= 0 {
		procs = 16
	}
	if s := os.Getenv("VERIF_SEED"); s != "" && !flagSet("seed") {
		if v, err := strconv.ParseUint(s, 10, 64); err == nil {
			*fSeed = v
		} else if v, err := strconv.ParseInt(s, 10, 64); err == nil {
			*fSeed = uint64(v)
		}
	}
	if tr := os.Getenv("VERIF_TIER"); tr != "" && !flagSet("tier") {
		*fTier = tr
	}
	seed := *fSeed
	fmt.Printf("VERIF_SEED=%d property=%s tier=%s procs=%d\n", seed, prop, *fTier, procs)

	workdir, err := os.MkdirTemp("", "verif-"+prop+"-")
	if err != nil {
		fmt.Fprintln(os.Stderr, err)
		return 2
	}
	defer os.RemoveAll(workdir)

	// job list
	var jobs []job
	quickCases := cfg.QuickCases
	if *fCases > 0 {
		quickCases = *fCases
	}
	secs := cfg.ThoroughSeconds
	if *fSecs > 0 {
		secs = *fSecs
	}
	thorough := *fTier == "thorough"
	if cfg.CasesPerProcess > 0 {
		// fixed-size jobs handed to a pool; in thorough tier the pool stops taking jobs at the deadline
		total := quickCases * procs
		if thorough {
			total = 1 << 30
		}
		for i, first := 0, 0; first < total && i < 1<<22; i, first = i+1, first+cfg.CasesPerProcess {
			jobs = append(jobs, job{idx: i, first: first, count: cfg.CasesPerProcess, seed: seed})
			if thorough && i > 4000000 {
				break
			}
		}
	} else {
		for i := 0; i < procs; i++ {
			j := job{idx: i, first: 0, seed: tape.Mix(seed, uint64(1000+i))}
			if thorough {
				j.secs = secs
			} else {
				j.count = quickCases
			}
			jobs = append(jobs, j)
		}
	}
	deadline := time.Time{}
	if thorough {
		deadline = t0.Add(time.Duration(secs) * time.Second)
	}

	var mu sync.Mutex
	total := NewStats()
	total.cap = 1 << 25
	totalCases := 0
	var founds []found
	trouble := []string{}
	merge := func(s *Stats, n int) {
		mu.Lock()
		defer mu.Unlock()
		totalCases += n
		for k, v := range s.Counters {
			if strings.HasPrefix(k, "max:") {
				total.Max(k, v)
			} else {
				total.Counters[k] += v
			}
		}
		for k, l := range s.Distinct {
			for _, h := range l {
				total.Seen(k, h)
			}
		}
		for _, sm := range s.Samples {
			if len(total.Samples) < 8 {
				total.Samples = append(total.Samples, sm)
			}
		}
	}

	jobCh := make(chan job)
	var wg sync.WaitGroup
	for p := 0; p < procs; p++ {
		wg.Add(1)
		go func() {
			defer wg.Done()
			for j := range jobCh {
				fs, tr, st, n := runWorker(j, cfg, workdir)
				mu.Lock()
				founds = append(founds, fs...)
				trouble = append(trouble, tr...)
				mu.Unlock()
				if st != nil {
					merge(st, n)
				}
			}
		}()
	}
	for _, j := range jobs {
		if !deadline.IsZero() && time.Now().After(deadline) {
			break
		}
		mu.Lock()
		nf := len(founds)
		mu.Unlock()
		if cfg.CasesPerProcess > 0 && nf > 50 {
			break
		}
		if abort.Load() {
			break
		}
		jobCh <- j
	}
	close(jobCh)
	wg.Wait()

	// de-duplicate by signature (keep the shortest tape)
	bySig := map[string]found{}
	for _, f := range founds {
		if o, ok := bySig[f.v.Sig]; !ok || len(f.tape) < len(o.tape) {
			bySig[f.v.Sig] = f
		}
	}
	sigs := make([]string, 0, len(bySig))
	for s := range bySig {
		sigs = append(sigs, s)
	}
	sort.Strings(sigs)

	known := loadKnown(filepath.Join(*fVerif, "known_findings.json"))
	exit := 0
	nviol := 0
	knownHit := map[string]bool{}
	for _, s := range sigs {
		f := bySig[s]
		if cfg.SubprocMinimise || f.subproc {
			// confirm in a fresh process, then shrink across processes
			sig, det, ok := runOneSubproc(f.tape, cfg, confirmTimeout(cfg))
			if !ok {
				trouble = append(trouble, "confirmation run misbehaved for "+s+": "+det)
				continue
			}
			if sig == "" && strings.HasPrefix(s, "hang|") {
				// the same rule as in the worker path: a case that exceeded the bound (even once more under
				// the first confirmation) and returns cleanly when run alone with three times the bound is a
				// slow moment on a loaded machine, not a property of the code
				noteMu.Lock()
				slowNotes = append(slowNotes, fmt.Sprintf("case seed %d exceeded the liveness bound (%s) but returned cleanly when re-run alone with three times the bound (machine load); counted, not reported", f.seed, s))
				noteMu.Unlock()
				continue
			}
			if sig != s {
				trouble = append(trouble, fmt.Sprintf("violation %q did not reproduce in a fresh process (got %q); treated as harness nondeterminism, not reported", s, sig))
				continue
			}
			if det != "" {
				f.v.Detail = det
			}
			budget := cfg.SubprocBudget
			if budget <= 0 {
				budget = 24
			}
			min := tape.Minimise(f.tape, s, budget, func(c []uint32) string {
				wd := cfg.watchdog() / 2
				if wd < 2*time.Second {
					wd = 2 * time.Second
				}
				sg, _, _ := runOneSubproc(c, cfg, wd+2*time.Second)
				return sg
			})
			if sg, det, ok := runOneSubproc(min, cfg, confirmTimeout(cfg)); ok && sg == s {
				f.tape = min
				if det != "" {
					f.v.Detail = det
				}
			}
		}
		kf := matchKnown(known, prop, s)
		rf := ReplayFile{Property: prop, Seed: f.seed, Tape: f.tape, Sig: s, Class: f.v.Class, Detail: f.v.Detail, Note: f.note}
		if strings.HasPrefix(f.v.Class, "history-dependent") {
			rf.Prelude = f.prelude
		}
		dir := filepath.Join(*fVerif, "replays", prop)
		os.MkdirAll(dir, 0o755)
		name := fmt.Sprintf("%s-%016x.json", sanitize(f.v.Class), Hash(s))
		path := filepath.Join(dir, name)
		if kf != nil {
			if !knownHit[kf.Signature] {
				knownHit[kf.Signature] = true
				fmt.Printf("KNOWN-FINDING: property=%s %s [signature %s]\n", prop, kf.What, kf.Signature)
			}
			continue
		}
		b, _ := json.MarshalIndent(rf, "", " ")
		if err := os.WriteFile(path, b, 0o644); err != nil {
			trouble = append(trouble, "cannot write replay file: "+err.Error())
		}
		fmt.Printf("--- violation of %s: %s\n%s\n", prop, s, head(f.v.Detail, 3000))
		fmt.Printf("VIOLATION property=%s replay=%s\n", prop, path)
		nviol++
		exit = 1
	}

	newUnsim := unsimulatedSources(prop)
	for _, u := range newUnsim {
		fmt.Fprintf(os.Stderr, "NOTE: the tree under test has a source of nondeterminism this world has no seam for (not in unsimulated_baseline.txt): %s — the verdict does not cover behaviour that depends on it\n", u)
	}
	wall := time.Since(t0).Seconds()
	if !*fNoEvid {
		if err := writeEvidence(w, cfg, total, totalCases, seed, wall, nviol, len(knownHit), procs, trouble); err != nil {
			fmt.Fprintln(os.Stderr, "evidence:", err)
			if exit == 0 {
				exit = 2
			}
		}
	}
	for _, n := range slowNotes {
		fmt.Fprintln(os.Stderr, "NOTE:", n)
	}
	for _, t := range trouble {
		fmt.Fprintln(os.Stderr, "TROUBLE:", t)
	}
	if len(trouble) > 0 && exit == 0 {
		exit = 2
	}
	fmt.Printf("property=%s tier=%s cases=%d violations=%d known=%d wall=%.1fs exit=%d\n", prop, *fTier, totalCases, nviol, len(knownHit), wall, exit)
	return exit
}

func flagSet(name string) bool {
	set := false
	flag.Visit(func(f *flag.Flag) {
		if f.Name == name {
			set = true
		}
	})
	return set
}

func sanitize(s string) string {
	b := []byte(s)
	for i, c := range b {
		if !(c >= 'a' && c <= 'z' || c >= 'A' && c <= 'Z' || c >= '0' && c <= '9' || c == '-') {
			b[i] = '_'
		}
	}
	return string(b)
}

// runWorker runs one worker process and watches it. It restarts after a crash
// or hang at the following case so that one bad case does not end the run.
func runWorker(j job, cfg Config, workdir string) (fs []found, trouble []string, st *Stats, ncases int) {
	first := j.first
	remaining := j.count
	started := time.Now()
	st = NewStats()
	st.cap = 1 << 24
	restarts := 0
	for {
		if abort.Load() {
			break
		}
		secs := 0
		if j.secs > 0 {
			secs = j.secs - int(time.Since(started).Seconds())
			if secs <= 0 {
				break
			}
		} else if remaining <= 0 {
			break
		}
		dir := filepath.Join(workdir, fmt.Sprintf("w%d-%d", j.idx, restarts))
		os.MkdirAll(dir, 0o755)
		args := []string{"-mode=worker", fmt.Sprintf("-seed=%d", j.seed), fmt.Sprintf("-first=%d", first)}
		if j.secs > 0 {
			args = append(args, fmt.Sprintf("-seconds=%d", secs))
		} else {
			args = append(args, fmt.Sprintf("-count=%d", remaining))
		}
		cmd := exec.Command(self(), append(append([]string{}, cfg.SelfArgs...), args...)...)
		cmd.Env = append(os.Environ(), cfg.ExtraWorkerEnv...)
		cmd.Env = append(cmd.Env, "VERIF_WORKDIR="+dir, "VERIF_WORKER_TIER="+Tier())
		if cfg.RaceLog {
			cmd.Env = append(cmd.Env, "GORACE=log_path="+dir+"/race exitcode=0 halt_on_error=0 atexit_sleep_ms=0")
		}
		stderrPath := filepath.Join(dir, "stderr")
		ef, _ := os.Create(stderrPath)
		cmd.Stderr = ef
		cmd.SysProcAttr = &syscall.SysProcAttr{Setpgid: true}
		pipe, err := cmd.StdoutPipe()
		if err != nil {
			return fs, append(trouble, err.Error()), st, ncases
		}
		if err := cmd.Start(); err != nil {
			return fs, append(trouble, "cannot start worker: "+err.Error()), st, ncases
		}
		var mu sync.Mutex
		lastCase, lastSeed := -1, uint64(0)
		lastStart := time.Now()
		finished := false
		doneCh := make(chan struct{})
		hung := false
		go func() {
			tk := time.NewTicker(200 * time.Millisecond)
			defer tk.Stop()
			for {
				select {
				case <-doneCh:
					return
				case <-tk.C:
					if abort.Load() {
						syscall.Kill(-cmd.Process.Pid, syscall.SIGKILL)
						return
					}
					mu.Lock()
					late := time.Since(lastStart) > cfg.CaseTimeout && !finished
					mu.Unlock()
					if late {
						mu.Lock()
						hung = true
						mu.Unlock()
						syscall.Kill(-cmd.Process.Pid, syscall.SIGKILL)
						return
					}
				}
			}
		}()
		sc := bufio.NewScanner(pipe)
		sc.Buffer(make([]byte, 1<<20), 1<<28)
		casesThis := 0
		for sc.Scan() {
			var m caseMsg
			if json.Unmarshal(sc.Bytes(), &m) != nil {
				continue
			}
			switch m.T {
			case "start":
				mu.Lock()
				lastCase, lastSeed = m.Case, m.Seed
				lastStart = time.Now()
				mu.Unlock()
				casesThis++
			case "beat":
				mu.Lock()
				lastStart = time.Now()
				mu.Unlock()
			case "viol":
				fs = append(fs, found{v: *m.Viol, seed: m.Seed, tape: m.Tape, prelude: m.Prelude})
			case "trouble":
				trouble = append(trouble, fmt.Sprintf("case %d (seed %d): %s", m.Case, m.Seed, m.Note))
			case "flaky":
				trouble = append(trouble, fmt.Sprintf("case %d (seed %d): %s: %s", m.Case, m.Seed, m.Note, m.Viol.Sig))
			case "done":
				mu.Lock()
				finished = true
				mu.Unlock()
				for k, v := range m.Stats.Counters {
					if strings.HasPrefix(k, "max:") {
						st.Max(k, v)
					} else {
						st.Counters[k] += v
					}
				}
				for k, l := range m.Stats.Distinct {
					for _, h := range l {
						st.Seen(k, h)
					}
				}
				st.Samples = append(st.Samples, m.Stats.Samples...)
				ncases += m.Cases
			}
		}
		werr := cmd.Wait()
		close(doneCh)
		ef.Close()
		mu.Lock()
		fin, wasHung := finished, hung
		mu.Unlock()
		if fin && werr == nil {
			break
		}
		if abort.Load() {
			ncases += casesThis
			break
		}
		// the worker died or was killed inside case lastCase
		stderrB, _ := os.ReadFile(stderrPath)
		stderrS := string(stderrB)
		if lastCase < 0 {
			trouble = append(trouble, "worker died before its first case: "+tail(stderrS, 1500))
			break
		}
		if strings.Contains(stderrS, "VERIF-HANG") {
			wasHung = true
		}
		ncases += casesThis
		cs := lastSeed
		if wasHung && !cfg.HangIsViolation {
			trouble = append(trouble, fmt.Sprintf("worker stuck in case %d (seed %d)", lastCase, cs))
		} else if !wasHung && !cfg.CrashIsViolation {
			trouble = append(trouble, fmt.Sprintf("worker died in case %d (seed %d): %s", lastCase, cs, tail(stderrS, 1500)))
		} else {
			sig, det, ok := confirmSeed(cs, cfg, confirmTimeout(cfg))
			switch {
			case ok && strings.HasPrefix(sig, "hang|"+UnsimulatedBlock):
				trouble = append(trouble, fmt.Sprintf("case seed %d: a worker of the simulated schedule blocked in a synchronisation primitive the simulator has no seam for (%s); this tree cannot be decided by this world (not a violation)", cs, strings.TrimPrefix(sig, "hang|"+UnsimulatedBlock)))
				abort.Store(true)
			case ok && sig != "":
				fs = append(fs, found{v: Violation{Class: strings.SplitN(sig, "|", 2)[0], Sig: sig, Detail: det}, seed: cs, tape: seedTape(cs, cfg), subproc: true})
				// a confirmed crash or hang: the verdict is settled, do not spend the rest of the budget dying
				abort.Store(true)
			case wasHung:
				// a slow moment on a loaded machine, not a property of the code: the case terminates when run alone
				noteMu.Lock()
				slowNotes = append(slowNotes, fmt.Sprintf("case seed %d exceeded the liveness bound once but returned cleanly when re-run alone with three times the bound (machine load); counted, not reported", cs))
				noteMu.Unlock()
			default:
				trouble = append(trouble, fmt.Sprintf("worker died in case %d (seed %d) but the case alone did not fail: %s // %s", lastCase, cs, head(det, 300), tail(stderrS, 1500)))
			}
		}
		restarts++
		done := lastCase - first + 1
		first = lastCase + 1
		if remaining > 0 {
			remaining -= done
		}
		if restarts > 20 {
			trouble = append(trouble, "too many worker restarts")
			break
		}
	}
	st.finish()
	return
}

// confirmSeed re-runs the case with the given case seed alone in a fresh process.
func confirmSeed(cs uint64, cfg Config, timeout time.Duration) (sig, detail string, ok bool) {
	cmd := exec.Command(self(), append(append([]string{}, cfg.SelfArgs...), "-mode=one", fmt.Sprintf("-seed=%d", cs))...)
	dir, _ := os.MkdirTemp("", "verif-one-")
	defer os.RemoveAll(dir)
	cmd.Env = append(os.Environ(), cfg.ExtraWorkerEnv...)
	cmd.Env = append(cmd.Env, "VERIF_WORKDIR="+dir, "VERIF_WORKER_TIER="+Tier())
	if cfg.RaceLog {
		cmd.Env = append(cmd.Env, "GORACE=log_path="+dir+"/race exitcode=0 halt_on_error=0 atexit_sleep_ms=0")
	}
	var stdout, stderr strings.Builder
	cmd.Stdout, cmd.Stderr = &stdout, &stderr
	cmd.SysProcAttr = &syscall.SysProcAttr{Setpgid: true}
	if err := cmd.Start(); err != nil {
		return "", err.Error(), false
	}
	done := make(chan error, 1)
	go func() { done <- cmd.Wait() }()
	var err error
	select {
	case err = <-done:
	case <-time.After(timeout):
		syscall.Kill(-cmd.Process.Pid, syscall.SIGKILL)
		<-done
		return "hang|" + hangSite(stderr.String()), "case did not return within " + timeout.String() + " when run alone", true
	}
	if strings.Contains(stderr.String(), "VERIF-HANG") {
		return "hang|" + hangSite(stderr.String()), hangDetail(stderr.String()), true
	}
	for _, line := range strings.Split(stdout.String(), "\n") {
		if strings.HasPrefix(line, `{"t":"one"`) {
			var m caseMsg
			if json.Unmarshal([]byte(line), &m) == nil {
				if m.Viol == nil {
					return "", "", true
				}
				return m.Viol.Sig, m.Viol.Detail, true
			}
		}
	}
	if err != nil {
		return "crash|" + CrashSite(stderr.String()), tail(stderr.String(), 4000), true
	}
	return "", "no verdict", false
}

// seedTape materialises the tape a case seed produces, so that crash and hang
// cases get the same kind of replay file (and shrinking) as every other case.
// It runs the case generator in a child process in "record only" mode where the
// world supports it; otherwise it returns the first draws of the seed.
func seedTape(cs uint64, cfg Config) []uint32 {
	return tape.RawPrefix(cs, 1<<19) // (a scaled module set with styled rendering draws more than 100 000 values)
}

// unsimulatedSources compares simrewrite's static list of constructs without a
// seam (goroutines, select, finalizers, clocks, files, environment, random
// numbers, sync.WaitGroup/Map/Pool/Cond declarations) in the packages this
// property's world runs with the committed baseline and returns the new ones.
var lastUnsim []string

func unsimulatedSources(prop string) []string {
	pk := map[string][]string{"C05": {"xpath"}, "C06": {"xpath"}, "C07": {"parse"}, "C11": {"parse", "compile", "schema", "xpath"}}[prop]
	logb, err := os.ReadFile(os.Getenv("VERIF_REWRITE_LOG"))
	if err != nil {
		return nil
	}
	base := map[string]bool{}
	if b, err := os.ReadFile(filepath.Join(*fVerif, "unsimulated_baseline.txt")); err == nil {
		for _, l := range strings.Split(string(b), "\n") {
			base[strings.TrimSpace(l)] = true
		}
	} else if b, err := os.ReadFile("/verif/unsimulated_baseline.txt"); err == nil {
		for _, l := range strings.Split(string(b), "\n") {
			base[strings.TrimSpace(l)] = true
		}
	}
	var out []string
	for _, l := range strings.Split(string(logb), "\n") {
		if !strings.HasPrefix(l, "UNSIM ") {
			continue
		}
		u := strings.TrimPrefix(l, "UNSIM ")
		f := strings.Fields(u)
		if len(f) != 2 {
			continue
		}
		rel := f[1]
		mine := false
		for _, p := range pk {
			if rel == p || strings.HasPrefix(rel, p+".") || strings.HasPrefix(rel, p+"/") {
				mine = true
			}
		}
		if mine && !base[u] {
			out = append(out, u)
		}
	}
	lastUnsim = out
	return out
}

func loadKnown(path string) []KnownFinding {
	b, err := os.ReadFile(path)
	if err != nil {
		return nil
	}
	var f struct {
		Findings []KnownFinding `json:"findings"`
	}
	if json.Unmarshal(b, &f) != nil {
		fmt.Fprintln(os.Stderr, "TROUBLE: known_findings.json does not parse; ignoring it")
		return nil
	}
	return f.Findings
}

func matchKnown(k []KnownFinding, prop, sig string) *KnownFinding {
	for i := range k {
		if k[i].Property == prop && k[i].Status == "known" && k[i].Signature == sig {
			return &k[i]
		}
	}
	return nil
}

func writeEvidence(w World, cfg Config, st *Stats, cases int, seed uint64, wall float64, nviol, nknown, procs int, trouble []string) error {
	d := w.Describe()
	st.finish()
	distinct := map[string]int{}
	for k, l := range st.Distinct {
		distinct[k] = len(l)
	}
	faults := map[string]int64{}
	reach := map[string]int64{}
	other := map[string]int64{}
	sites := map[string]map[string]int64{}
	for k, v := range st.Counters {
		switch {
		case strings.HasPrefix(k, "sitehits@"), strings.HasPrefix(k, "max:keys@"):
			name := k[strings.Index(k, "@")+1:]
			if sites[name] == nil {
				sites[name] = map[string]int64{}
			}
			if strings.HasPrefix(k, "sitehits@") {
				sites[name]["executions"] = v
			} else {
				sites[name]["max_keys"] = v
			}
		case strings.HasPrefix(k, "fault:"):
			faults[strings.TrimPrefix(k, "fault:")] = v
		case strings.HasPrefix(k, "reach:"):
			reach[strings.TrimPrefix(k, "reach:")] = v
		default:
			other[k] = v
		}
	}
	for _, fk := range d.FaultKinds {
		if _, ok := faults[fk]; !ok {
			faults[fk] = 0
		}
	}
	cov := map[string]any{
		"evaluations":                  cases,
		"distinct_nontrivial":          distinct[d.DistinctSet],
		"rule":                         d.Rule,
		"samples":                      st.Samples,
		"exhaustive":                   false,
		"distinct_by_measure":          distinct,
		"faults_fired":                 faults,
		"reach_probes":                 reach,
		"counters":                     other,
		"runs_per_hour":                int(float64(cases) / wall * 3600),
		"seeds_per_hour":               int(float64(cases) / wall * 3600),
		"worker_processes":             procs,
		"simulated_time":               "not applicable: the system under test has no timers or deadlines; progress is counted in callback steps / scheduler steps (see counters)",
		"components":                   d.Components,
		"harness_trouble":              trouble,
		"slow_cases_reconfirmed_alone": len(slowNotes),
		"known_findings_hit":           nknown,
	}
	for k, v := range d.Extra {
		cov[k] = v
	}
	if len(sites) > 0 {
		cov["instrumented_sites_reached"] = sites
		multi := 0
		for _, m := range sites {
			if m["max_keys"] >= 2 {
				multi++
			}
		}
		cov["instrumented_sites_reached_with_2plus_keys"] = multi
	}
	if len(st.Samples) == 0 {
		cov["samples"] = []any{"(no sample recorded)"}
	}
	tier := *fTier
	if tier != "thorough" {
		tier = "quick"
	}
	ev := map[string]any{
		"property_id": w.Property(),
		"tier":        tier,
		"seed":        int64(seed & 0x7fffffffffffffff),
		"level":       w.Level(),
		"coverage":    cov,
		"assumptions": d.Assumptions,
		"wall_s":      wall,
		"violations":  nviol,
	}
	b, err := json.MarshalIndent(ev, "", " ")
	if err != nil {
		return err
	}
	dir := filepath.Join(*fVerif, "evidence")
	os.MkdirAll(dir, 0o755)
	return os.WriteFile(filepath.Join(dir, w.Property()+".json"), b, 0o644)
}
