// Package genxpath draws XPath expression strings from a tape. The generator is
// grammar-directed over the subset the three yang-parser grammars accept, aware
// of the simulated tree (so that a good share of navigations succeed), and has
// damage operators for the "arbitrary bytes" half of the input space.
package genxpath

import (
	"fmt"
	"strings"

	"verif/faulttree"
	"verif/tape"
)

type Gen struct {
	T        *tape.Tape
	Tree     *faulttree.Tree
	Ctx      *faulttree.Node
	FuncBias bool // favour function calls (more function-table lookups per compile)
	NoFuncs  bool // never emit a function call (keeps the function table untouched)
	Focus    int  // 1+index of a function that half of the calls use (0: none)
	// reach probes
	UsedDeref, UsedCurrent, UsedPred, UsedText, UsedFunc bool
}

var fnames = []struct {
	n     string
	arity int
}{
	{"boolean", 1}, {"ceiling", 1}, {"concat", 2}, {"contains", 2}, {"re-match", 2}, {"count", 1},
	{"false", 0}, {"floor", 1}, {"last", 0}, {"local-name", 1}, {"normalize-space", 1}, {"not", 1},
	{"number", 1}, {"round", 1}, {"position", 0}, {"starts-with", 2}, {"string", 1}, {"string-length", 1},
	{"substring", 3}, {"substring-after", 2}, {"substring-before", 2}, {"sum", 1}, {"translate", 3}, {"true", 0},
	{"custom-fn", 1}, {"user-fn", 1}, {"nosuch", 1},
}

var binops = []string{" or ", " and ", " = ", " != ", " < ", " <= ", " > ", " >= ", " + ", " - ", " * ", " div ", " mod ", " | ", "=", "!="}
var litvals = []string{"''", "'a'", "'eth0'", "\"b\"", "'1'", "'x y'", "'é'", "'42'", "''"}
var numvals = []string{"0", "1", "2", "42", "1.5", ".5", "1e3", "007", "3.", "1e", "1.2.3", "1e400", "99999999999999999999999999999999999999999", "1E-5", "0.0000001",
	// the edges of what numbers can be: negative, beyond the integers a float64 counts exactly, beyond int32/int64, infinities and NaN
	"-1", "-0", "-42", "-1e17", "1e17", "-9007199254740993", "9007199254740993", "2147483648", "-2147483649", "4294967296", "9223372036854775808", "-9223372036854775809", "1e308", "-1e308", "(1 div 0)", "(-1 div 0)", "(0 div 0)"}
var stepnames = []string{"a", "b", "c", "if", "name", "mtu", "x", "y", "k", "v", "pfx:a", "p:*", "*", "id"}

func (g *Gen) pick(l []string) string { return l[g.T.Draw(len(l))] }

// uletters: letters outside ASCII, among them the ones whose upper/lower-case
// mapping changes the encoded length (Kelvin sign, Ohm sign, Angstrom sign, capital
// sharp s, L with middle tilde, dotted capital I, A/T with stroke, long s), a
// ligature, a decomposed accent, a zero-width space, CJK, a four-byte rune.
var uletters = []string{"\u212a", "\u2126", "\u212b", "\u1e9e", "\u2c62", "\u0130", "\u023a", "\u023e", "\u017f", "\u0131", "\ufb01", "e\u0301", "\u200b", "\u540d", "\U0001f600", "\u00e9", "\u03a3", "\u0345"}

// UName draws a short node name (or prefix:name) with letters outside ASCII.
func (g *Gen) UName() string {
	t := g.T
	one := func() string {
		var b strings.Builder
		for n := 1 + t.Draw(3); n > 0; n-- {
			if t.Draw(3) > 0 {
				b.WriteString(uletters[t.Draw(len(uletters))])
			} else {
				b.WriteByte("abxXmM_-.9"[t.Draw(10)])
			}
		}
		return b.String()
	}
	if t.Rare(4) {
		return one() + ":" + one()
	}
	return one()
}

// wellTyped: for each core function a call with the declared number of arguments of the
// declared types (literals, so that a run gets as far as the function itself).
var wellTyped = map[string]string{
	"boolean": "boolean('a')", "ceiling": "ceiling(1.5)", "concat": "concat('a', 'b')", "contains": "contains('abc', 'b')",
	"re-match": "re-match('eth0', 'eth[0-9]')", "count": "count(*)", "false": "false()", "floor": "floor(1.5)", "last": "last()",
	"local-name": "local-name(.)", "normalize-space": "normalize-space(' a  b ')", "not": "not(true())", "number": "number('42')",
	"round": "round(2.5)", "position": "position()", "starts-with": "starts-with('abc', 'a')", "string": "string(42)",
	"string-length": "string-length('abc')", "substring": "substring('abcde', 2, 3)", "substring-after": "substring-after('a/b', '/')",
	"substring-before": "substring-before('a/b', '/')", "sum": "sum(*)", "translate": "translate('abc', 'abc', 'xyz')", "true": "true()",
}

// WellTyped returns a well-typed literal call of the focus function ("" if there is none).
func (g *Gen) WellTyped() string {
	if g.Focus <= 0 || g.Focus > len(fnames) {
		return ""
	}
	return wellTyped[fnames[g.Focus-1].n]
}

// ArityVariant returns a call of the focus function with n literal arguments (any n, right or wrong).
func (g *Gen) ArityVariant(n int) string {
	if g.Focus <= 0 || g.Focus > len(fnames) {
		return ""
	}
	args := make([]string, n)
	for i := range args {
		args[i] = g.pick([]string{"'a'", "1", "'b'", "2", "true()", ".", "'abcde'", "-1", "-1e17", "1e17", "(1 div 0)", "(0 div 0)", "0", "''"})
	}
	return fnames[g.Focus-1].n + "(" + strings.Join(args, ", ") + ")"
}

// CollisionCall returns a call of the focus function with the declared number of arguments, all
// literals from a tiny pool of strings that are prefixes, suffixes and concatenations of each other
// (and numbers that read alike): many different argument tuples of one function in one process, so
// that anything remembered per function under too coarse a key (the arguments glued together, only
// the first argument, a length) is used for the wrong tuple sooner or later.
func (g *Gen) CollisionCall() string {
	if g.Focus <= 0 || g.Focus > len(fnames) {
		return ""
	}
	f := fnames[g.Focus-1]
	pool := []string{"'a'", "'b'", "'ab'", "'ba'", "''", "'1'"} // (small on purpose: with five or six strings most cases contain two tuples that glue to the same text)
	args := make([]string, f.arity)
	for i := range args {
		args[i] = pool[g.T.Draw(len(pool))]
	}
	return f.n + "(" + strings.Join(args, ", ") + ")"
}

// NumFuncs is the number of function names Func chooses from (for Gen.Focus).
func NumFuncs() int { return len(fnames) }

// Expr draws an expression.
func (g *Gen) Expr(depth int) string {
	t := g.T
	if depth <= 0 {
		switch t.Pick(5, 2, 2) {
		case 0:
			return g.Path(0)
		case 1:
			return g.pick(litvals)
		}
		return g.pick(numvals)
	}
	fw := 4
	if g.FuncBias {
		fw = 14
	}
	switch t.Pick(8, 2, 2, 6, 1, 1, fw) {
	case 0:
		return g.Path(depth - 1)
	case 1:
		return g.pick(litvals)
	case 2:
		return g.pick(numvals)
	case 3:
		return g.Expr(depth-1) + g.pick(binops) + g.Expr(depth-1)
	case 4:
		return "-" + g.Expr(depth-1)
	case 5:
		return "(" + g.Expr(depth-1) + ")"
	default:
		return g.Func(depth - 1)
	}
}

func (g *Gen) Func(depth int) string {
	if g.NoFuncs {
		return g.Path(depth)
	}
	g.UsedFunc = true
	f := fnames[g.T.Draw(len(fnames))]
	wrong := 12
	if g.Focus > 0 && g.Focus <= len(fnames) && g.T.Coin() {
		// the case's focus function: machines and compilations of one case meet on the same symbol,
		// and its calls come with every number of arguments
		f = fnames[g.Focus-1]
		wrong = 3
	}
	n := f.arity
	if g.T.Rare(wrong) { // wrong arity now and then
		n = g.T.Draw(5)
	}
	args := make([]string, n)
	for i := range args {
		args[i] = g.Expr(depth)
	}
	if f.n == "re-match" && n == 2 && g.T.Coin() {
		// patterns, including ones Go's regexp package rejects (XSD escapes, stray metacharacters)
		// patterns, valid ones and everything around them: what Go's regexp rejects, XSD escapes and blocks,
		// and every such pattern CUT at a drawn place (an escape or a block or a class that never ends)
		pats := []string{"[a-z]+", "^eth[0-9]$", "[", "(", "*a", "\\p{IsBasicLatin}", "a{2,1}", "\\i\\c*", ".*",
			"\\p{IsBasicLatin}+\\P{IsGreek}", "\\pL\\PL", "[\\p{Lu}-[A-F]]", "a{1,1000}{1,1000}", "(a|b)*c\\d{1,3}\\.\\d{1,3}", "[\\i-[:]][\\c-[:]]*", "\\", "a\\", "(?i)x", "[[:alpha:]]", "\\1", "é+\\x{10FFFF}", ""}
		pat := pats[g.T.Draw(len(pats))]
		if len(pat) > 1 && g.T.Rare(3) {
			pat = pat[:1+g.T.Draw(len(pat)-1)]
		}
		args[1] = "'" + pat + "'"
	}
	sp := ""
	if g.T.Rare(8) {
		sp = " "
	}
	return f.n + sp + "(" + strings.Join(args, ", ") + ")"
}

// steps from one tree node to another, as XPath steps with key predicates.
func (g *Gen) stepsTo(from, to *faulttree.Node, depth int) []string {
	// ancestors of from
	anc := map[*faulttree.Node]int{}
	d := 0
	for x := from; x != nil; x = x.Parent {
		anc[x] = d
		d++
	}
	var down []*faulttree.Node
	x := to
	for x != nil {
		if _, ok := anc[x]; ok {
			break
		}
		down = append(down, x)
		x = x.Parent
	}
	if x == nil {
		return nil
	}
	var steps []string
	for i := 0; i < anc[x]; i++ {
		steps = append(steps, "..")
	}
	for i := len(down) - 1; i >= 0; i-- {
		steps = append(steps, g.step(down[i], depth))
	}
	if len(steps) == 0 {
		steps = append(steps, ".")
	}
	return steps
}

func (g *Gen) step(n *faulttree.Node, depth int) string {
	s := n.Name
	if len(n.Keys) > 0 && g.T.Draw(5) > 0 {
		for _, k := range sortedKeys(n.Keys) {
			if g.T.Rare(6) {
				continue // leave a key out
			}
			g.UsedPred = true
			s += "[" + k + g.pick([]string{"=", " = "}) + g.keyOperand(n.Keys[k], depth) + "]"
		}
	}
	if n.Kind == faulttree.LeafList && g.T.Rare(3) {
		g.UsedText = true
		g.UsedPred = true
		s += "[text()=" + g.pick(litvals) + "]"
	}
	return s
}

func sortedKeys(m map[string]string) []string {
	ks := make([]string, 0, len(m))
	for k := range m {
		ks = append(ks, k)
	}
	for i := 1; i < len(ks); i++ {
		for j := i; j > 0 && ks[j] < ks[j-1]; j-- {
			ks[j], ks[j-1] = ks[j-1], ks[j]
		}
	}
	return ks
}

func (g *Gen) keyOperand(val string, depth int) string {
	switch g.T.Pick(5, 3, 1, 1) {
	case 0:
		return fmt.Sprintf("'%s'", strings.ReplaceAll(val, "'", ""))
	case 1:
		if depth > 0 {
			return g.Path(depth - 1)
		}
		return "current()/../" + g.pick(stepnames)
	case 2:
		if depth > 0 {
			return g.Func(depth - 1)
		}
		return g.pick(numvals)
	}
	return g.pick(numvals)
}

// Path draws a location path.
func (g *Gen) Path(depth int) string {
	t := g.T
	var steps []string
	from := g.Ctx
	prefix := ""
	switch t.Pick(5, 3, 2, 2) {
	case 0: // relative
	case 1: // absolute
		prefix = "/"
		if g.Tree != nil {
			from = g.Tree.Root
		}
	case 2:
		g.UsedCurrent = true
		prefix = "current()/"
	case 3:
		g.UsedDeref = true
		inner := "."
		if depth > 0 || t.Rare(2) {
			inner = g.derefInner(depth)
		}
		prefix = "deref(" + inner + ")/"
		if g.Tree != nil && len(g.Tree.Nodes) > 0 {
			from = g.Tree.Nodes[t.Draw(len(g.Tree.Nodes))]
		}
	}
	if g.Tree != nil && from != nil && t.Draw(5) > 0 {
		to := g.Tree.Nodes[t.Draw(len(g.Tree.Nodes))]
		steps = g.stepsTo(from, to, depth)
	}
	if steps == nil {
		for n := 1 + t.Draw(4); n > 0; n-- {
			s := g.pick(stepnames)
			if t.Rare(4) {
				s = ".."
			} else if t.Rare(10) {
				s = g.UName()
			}
			if t.Rare(6) {
				g.UsedPred = true
				s += "[" + g.pick([]string{"name", "k", "id", "."}) + "=" + g.keyOperand("a", depth) + "]"
			}
			if t.Rare(12) && depth > 0 {
				g.UsedPred = true
				s += "[" + g.Expr(depth-1) + "]"
			}
			steps = append(steps, s)
		}
	}
	// extra wandering
	for t.Rare(6) {
		steps = append(steps, g.pick([]string{"..", ".", "a", "name", "x"}))
	}
	p := prefix + strings.Join(steps, "/")
	if prefix == "/" && t.Rare(10) {
		p = "/"
	}
	if (prefix == "current()/" || strings.HasPrefix(prefix, "deref(")) && t.Rare(8) {
		p = strings.TrimSuffix(prefix, "/")
	}
	return p
}

func (g *Gen) derefInner(depth int) string {
	// point at a leafref node when there is one
	if g.Tree != nil && g.Ctx != nil {
		var refs []*faulttree.Node
		for _, n := range g.Tree.Nodes {
			if n.Kind == faulttree.LeafRef {
				refs = append(refs, n)
			}
		}
		if len(refs) > 0 && g.T.Draw(4) > 0 {
			to := refs[g.T.Draw(len(refs))]
			if g.T.Coin() {
				return strings.Join(g.stepsTo(g.Ctx, to, 0), "/")
			}
			return "/" + strings.Join(g.stepsTo(g.Tree.Root, to, 0), "/")
		}
	}
	d := depth - 1
	if d < 0 {
		d = 0
	}
	// avoid unbounded nesting: inner path without deref most of the time
	save := g.T
	_ = save
	return g.simplePath()
}

func (g *Gen) simplePath() string {
	var steps []string
	for n := 1 + g.T.Draw(3); n > 0; n-- {
		steps = append(steps, g.pick([]string{"..", "a", "b", "x", "name", "."}))
	}
	pre := g.pick([]string{"", "/", "current()/", "../"})
	return pre + strings.Join(steps, "/")
}

// Leafref draws a leafref-grammar path (a much smaller language).
func (g *Gen) Leafref() string {
	t := g.T
	var b strings.Builder
	if t.Coin() {
		b.WriteString("/")
	} else {
		for n := 1 + t.Draw(3); n > 0; n-- {
			b.WriteString("../")
		}
	}
	n := 1 + t.Draw(4)
	for i := 0; i < n; i++ {
		if i > 0 {
			b.WriteString("/")
		}
		if t.Rare(6) {
			b.WriteString(g.UName())
		} else {
			b.WriteString(g.pick([]string{"a", "b", "pfx:c", "name", "if", "x"}))
		}
		if t.Rare(4) {
			b.WriteString("[" + g.pick([]string{"name", "k", "p:id"}) + g.pick([]string{"=", " = "}) + "current()/" + g.pick([]string{"../", "../../"}) + g.pick([]string{"a", "name", "x/y"}) + "]")
		}
	}
	return b.String()
}

var junk = []string{"[", "]", "(", ")", "'", "\"", "/", "//", "::", ":", "*", "@", ",", "|", "!", "=", "<", ">", ".", "..", "$", "\x00", "\xff", "\xc3", "é", " ", "\n", "-", "1e", "and", "or", "div", "mod", "text()", "current()", "deref(", "node()", "child::", "comment(", "a:", ":b", "0x1", "1..2", "\xf0\x9f", "\xed\xa0\x80"}

// Damage applies 1..4 damage operators to an expression.
func (g *Gen) Damage(s string) string {
	t := g.T
	b := []byte(s)
	for n := 1 + t.Draw(4); n > 0; n-- {
		switch t.Draw(7) {
		case 0: // truncate
			if len(b) > 0 {
				b = b[:t.Draw(len(b))]
			}
		case 1: // delete a byte
			if len(b) > 0 {
				i := t.Draw(len(b))
				b = append(b[:i:i], b[i+1:]...)
			}
		case 2: // insert junk
			i := t.Draw(len(b) + 1)
			j := junk[t.Draw(len(junk))]
			b = append(b[:i:i], append([]byte(j), b[i:]...)...)
		case 3: // flip a byte
			if len(b) > 0 {
				i := t.Draw(len(b))
				b[i] ^= byte(1 << t.Draw(8))
			}
		case 4: // duplicate a slice
			if len(b) > 1 {
				i := t.Draw(len(b))
				j := i + t.Draw(len(b)-i)
				b = append(b[:j:j], append(append([]byte{}, b[i:j]...), b[j:]...)...)
			}
		case 5: // replace a byte by a junk token
			if len(b) > 0 {
				i := t.Draw(len(b))
				j := junk[t.Draw(len(junk))]
				b = append(b[:i:i], append([]byte(j), b[i+1:]...)...)
			}
		case 6: // prefix chop
			if len(b) > 0 {
				b = b[t.Draw(len(b)):]
			}
		}
	}
	return string(b)
}

// Raw draws a short random byte/token string (now and then a very long or very deeply nested one).
func (g *Gen) Raw() string {
	t := g.T
	if t.Rare(12) {
		n := 50 + t.Draw(400)
		switch t.Draw(4) {
		case 0:
			return strings.Repeat("(", n) + "1" + strings.Repeat(")", n-t.Draw(2))
		case 1:
			return "1" + strings.Repeat(" + 1", n)
		case 2:
			return "a" + strings.Repeat("[b=c", n/8) + strings.Repeat("]", n/8)
		case 3:
			return strings.Repeat("not(", n/4) + "true()" + strings.Repeat(")", n/4)
		}
	}
	var b []byte
	for n := t.Draw(10); n > 0; n-- {
		if t.Coin() {
			b = append(b, junk[t.Draw(len(junk))]...)
		} else if t.Coin() {
			b = append(b, byte(t.Draw(256)))
		} else if t.Rare(4) {
			b = append(b, g.UName()...)
		} else {
			b = append(b, stepnames[t.Draw(len(stepnames))]...)
		}
	}
	return string(b)
}
