package tape

// Minimise shrinks a recorded tape while run(tape) keeps returning the wanted
// signature. run must be a pure function of the tape. budget bounds the number
// of run calls. The result always reproduces want (it is only ever replaced by
// a candidate that did).
func Minimise(rec []uint32, want string, budget int, run func([]uint32) string) []uint32 {
	cur := append([]uint32(nil), rec...)
	calls := 0
	try := func(c []uint32) bool {
		if calls >= budget {
			return false
		}
		calls++
		return run(c) == want
	}
	// trailing zeros are free (a dry tape answers 0)
	trim := func(c []uint32) []uint32 {
		for len(c) > 0 && c[len(c)-1] == 0 {
			c = c[:len(c)-1]
		}
		return c
	}
	cur = trim(cur)
	improved := true
	for improved && calls < budget {
		improved = false
		// 1. truncate (binary search on prefix length)
		lo, hi := 0, len(cur)
		for lo < hi && calls < budget {
			mid := (lo + hi) / 2
			if try(cur[:mid]) {
				hi = mid
			} else {
				lo = mid + 1
			}
		}
		if hi < len(cur) {
			cur = trim(append([]uint32(nil), cur[:hi]...))
			improved = true
		}
		// 2. delete chunks
		for size := len(cur) / 2; size >= 1 && calls < budget; size /= 2 {
			for i := 0; i+size <= len(cur) && calls < budget; {
				c := append(append([]uint32(nil), cur[:i]...), cur[i+size:]...)
				if try(c) {
					cur = trim(c)
					improved = true
				} else {
					i += size
				}
			}
		}
		// 3. zero chunks, then single entries; then halve / decrement
		for size := 8; size >= 1 && calls < budget; size /= 2 {
			for i := 0; i < len(cur) && calls < budget; i += size {
				c := append([]uint32(nil), cur...)
				ch := false
				for j := i; j < i+size && j < len(c); j++ {
					if c[j] != 0 {
						c[j] = 0
						ch = true
					}
				}
				if ch && try(c) {
					cur = trim(c)
					improved = true
				}
			}
		}
		for i := 0; i < len(cur) && calls < budget; i++ {
			for cur[i] > 0 && calls < budget {
				c := append([]uint32(nil), cur...)
				c[i] = cur[i] / 2
				if try(c) {
					cur = c
					improved = true
					continue
				}
				c[i] = cur[i] - 1
				if c[i] != cur[i]/2 && try(c) {
					cur = c
					improved = true
					continue
				}
				break
			}
		}
		cur = trim(cur)
	}
	return cur
}
