// Package tape is the single source of nondeterminism of the simulator.
//
// Every decision (generated input, tree shape, which worker runs next, which
// map order a range site gets, which callback fails) is one Draw call. A tape
// created from a seed records what it hands out; a tape created from a
// recording replays it and answers 0 ("the simplest choice") once it runs dry.
// A run is therefore a pure function of (recorded prefix, code under test),
// and shrinking a failing run is shrinking a slice of integers.
//
// Nothing in here reads a clock, the environment or the Go runtime's random
// source, and nothing in here synchronises (no mutex, no atomics): a tape is
// owned by one goroutine at a time.
package tape

import "math/bits"

type Tape struct {
	s         [4]uint64
	rec       []uint32
	replay    []uint32
	pos       int
	replaying bool
	Limit     int // max draws (0 = unlimited); beyond it every draw is 0
}

func splitmix(x *uint64) uint64 {
	*x += 0x9e3779b97f4a7c15
	z := *x
	z = (z ^ (z >> 30)) * 0xbf58476d1ce4e5b9
	z = (z ^ (z >> 27)) * 0x94d049bb133111eb
	return z ^ (z >> 31)
}

// Mix derives an independent seed from a seed and a stream index.
func Mix(seed uint64, idx uint64) uint64 {
	x := seed ^ (idx+1)*0xd1342543de82ef95
	a := splitmix(&x)
	b := splitmix(&x)
	return a ^ bits.RotateLeft64(b, 17)
}

func New(seed uint64) *Tape {
	t := &Tape{}
	x := seed
	for i := range t.s {
		t.s[i] = splitmix(&x)
	}
	return t
}

func Replay(rec []uint32) *Tape {
	return &Tape{replay: rec, replaying: true}
}

func (t *Tape) next() uint64 {
	s := &t.s
	r := bits.RotateLeft64(s[1]*5, 7) * 9
	x := s[1] << 17
	s[2] ^= s[0]
	s[3] ^= s[1]
	s[1] ^= s[2]
	s[0] ^= s[3]
	s[2] ^= x
	s[3] = bits.RotateLeft64(s[3], 45)
	return r
}

// Draw returns an integer in [0,n). n<=1 returns 0 without consuming.
func (t *Tape) Draw(n int) int {
	if n <= 1 {
		return 0
	}
	if t.Limit > 0 && len(t.rec) >= t.Limit {
		return 0
	}
	var v uint32
	if t.replaying {
		if t.pos < len(t.replay) {
			v = (t.replay[t.pos] &^ markBit) % uint32(n)
			t.pos++
		} else {
			v = 0
		}
	} else {
		v = uint32(t.next()>>33) % uint32(n)
	}
	t.rec = append(t.rec, v)
	return int(v)
}

// Mark puts an OBSERVATION on the tape instead of taking a decision from it: a
// live tape records v (mod n) and returns it, a replayed tape returns what was
// recorded. It is for the one place where a world looks at something it does
// not control (the outcome of a free-running phase) and wants the controlled
// phase that follows to be replayed the same way whatever the free-running
// phase does next time. 0 must mean "nothing observed".
func (t *Tape) Mark(v, n int) int {
	if n <= 1 {
		return 0
	}
	if t.Limit > 0 && len(t.rec) >= t.Limit {
		return 0
	}
	var r uint32
	if t.replaying {
		// only a value that carries the mark bit is an observation: the raw tape of a
		// seed (RawPrefix, used for cases that killed their process) has generator
		// output at this position, which must read as "nothing observed" like the live run
		if t.pos < len(t.replay) {
			if x := t.replay[t.pos]; x&markBit != 0 {
				r = (x &^ markBit) % uint32(n)
			}
			t.pos++
		}
	} else {
		t.next() // keep the generator in step with a Draw at this position
		if v > 0 {
			r = uint32(v) % uint32(n)
		}
	}
	if r != 0 {
		t.rec = append(t.rec, r|markBit)
	} else {
		t.rec = append(t.rec, 0)
	}
	return int(r)
}

// markBit distinguishes a recorded observation from generator output (31 bits).
const markBit = 1 << 31

// Bool is true with probability num/den.
func (t *Tape) Chance(num, den int) bool { return t.Draw(den) >= den-num }

// Coin is a fair coin; 0 (false) is the simple choice.
func (t *Tape) Coin() bool { return t.Draw(2) == 1 }

// Range draws from [lo,hi].
func (t *Tape) Range(lo, hi int) int {
	if hi <= lo {
		return lo
	}
	return lo + t.Draw(hi-lo+1)
}

// Pick returns an index weighted by w (0 weights allowed, not all zero).
func (t *Tape) Pick(w ...int) int {
	sum := 0
	for _, x := range w {
		sum += x
	}
	if sum <= 0 {
		return 0
	}
	v := t.Draw(sum)
	for i, x := range w {
		if v < x {
			return i
		}
		v -= x
	}
	return len(w) - 1
}

// Recorded returns what has been drawn so far (what a replay needs).
func (t *Tape) Recorded() []uint32 { return append([]uint32(nil), t.rec...) }

// Len is the number of draws so far.
func (t *Tape) Len() int { return len(t.rec) }

// Perm fills p with a permutation of 0..n-1 chosen from the tape.
// kind: 0 identity, 1 reverse, 2 rotation, 3 Fisher-Yates. Draws kind first.
func (t *Tape) Perm(n int) []int {
	p := make([]int, n)
	for i := range p {
		p[i] = i
	}
	if n < 2 {
		return p
	}
	switch t.Draw(4) {
	case 0:
	case 1:
		for i, j := 0, n-1; i < j; i, j = i+1, j-1 {
			p[i], p[j] = p[j], p[i]
		}
	case 2:
		r := t.Draw(n)
		q := make([]int, n)
		for i := range p {
			q[i] = p[(i+r)%n]
		}
		p = q
	case 3:
		for i := n - 1; i > 0; i-- {
			j := t.Draw(i + 1)
			p[i], p[j] = p[j], p[i]
		}
	}
	return p
}

// RawPrefix returns the first n raw values a seed produces. Replaying it
// reproduces exactly what New(seed) would draw (Draw reduces modulo n in both
// modes), for runs of up to n draws. Used for cases that kill the process
// before their recorded tape can be reported.
func RawPrefix(seed uint64, n int) []uint32 {
	t := New(seed)
	out := make([]uint32, n)
	for i := range out {
		out[i] = uint32(t.next() >> 33)
	}
	return out
}

// Rare is true with probability 1/n; the simple choice (0) is false, so a dry
// replay tape never takes a rare branch and never keeps a `for t.Rare(n)` loop going.
func (t *Tape) Rare(n int) bool { return n > 0 && t.Draw(n) == n-1 }
