// World C11: the nondeterministic environment of one compile.CompileParseTrees
// call — the order every map is iterated in (R1 seam installed by simrewrite),
// the order modules are parsed and supplied, what earlier compiles left behind
// in the process, and caller callbacks that fail.
//
// Real code: parse, compile, schema, xpath compile path — R1-instrumented.
// Stubs: a FeaturesChecker fed from the tape, a pass-through Extensions
// implementation that can fail on its k-th call.
package main

import (
	"encoding/json"
	"fmt"
	"os"
	"os/exec"
	"path/filepath"
	"runtime"
	"runtime/debug"
	"sort"
	"strings"
	"sync"
	"time"

	"github.com/sdcio/yang-parser/compile"
	"github.com/sdcio/yang-parser/parse"
	"github.com/sdcio/yang-parser/schema"
	simrt "github.com/sdcio/yang-parser/zz_verifsimrt"

	"verif/dump"
	"verif/genyang"
	"verif/sched"
	"verif/super"
	"verif/tape"
)

type world struct{}

func (world) Property() string { return "C11" }
func (world) Level() string    { return "exploration" }

func (world) Describe() super.Description {
	d := super.Description{
		Rule:        "A case = one tape-generated module set (1..4 modules, 0..2 submodules; imports, includes, features with if-feature chains, identities with bases, typedef chains incl. imported ones, groupings with nested uses/refine/augment, top-level and cross-module augments, deviations, choice/case, lists, must/when/leafref, rpc/notification), 45% of them with one or two ill-formedness operators (cycle of each kind: import, include, grouping, typedef, identity, feature; dangling type/uses/if-feature/base/import/prefix; duplicates that only appear after expansion; bad default/range). Reference run R0: canonical parse order, every map-range site in canonical sorted order. Then J runs (quick 6, thorough 24): texts re-parsed from scratch in a tape-drawn order with shared interners, every execution of every map-range site given a tape-drawn permutation (identity/reverse/rotation/shuffle), optionally preceded by a compile of another set in the same process, optionally with an Extensions callback failing on its k-th call. Oracle: nothing escapes; err==nil in Rj iff in R0; canonical reflective dump of the ModelSet equal. distinct_nontrivial = distinct (module set, permutation sequence actually applied) pairs in which at least one map-range site iterated over >= 2 keys in non-canonical order.",
		DistinctSet: "orders",
		Assumptions: []string{
			"simrewrite rule R1 preserves behaviour up to the iteration order, which the Go spec leaves unspecified (checked: the repository's whole 505-test suite passes on the R1-rewritten copy)",
			"'the same schema' = equal canonical reflective dump of the whole ModelSet object graph; slices to which YANG attaches no order (Model.Features, Model.Deviations, Node.Choices — all filled from map walks) are compared as sets and differences in their order are only counted as observations",
			"error TEXT may differ between orders (two independent errors); only the verdict must not",
			"dependencies (tsort, mgmterror, sdc-protos, stdlib) are not instrumented; tsort sorts its keys before use",
			"stack depth bounded with debug.SetMaxStack(64 MB): unbounded recursion is reported as a crash, confirmed in a fresh process",
		},
		Components: map[string]any{
			"real": []string{"parse", "compile", "schema", "xpath (compile path for must/when/leafref)", "all mechanically instrumented by simrewrite R1 (map-range order seam)"},
			"stub": []string{"FeaturesChecker (table from the tape)", "Extensions (pass-through, optional failure at k-th call)"},
		},
		FaultKinds: []string{"map-order-permutation", "module-order-permutation", "history-compile", "extensions-error", "extensions-callback-with-memory"},
		Extra:      map[string]any{},
	}
	if b, err := os.ReadFile(os.Getenv("VERIF_REWRITE_LOG")); err == nil {
		counts := map[string]string{}
		n := 0
		for _, l := range strings.Split(string(b), "\n") {
			if strings.HasPrefix(l, "COUNT ") {
				f := strings.Fields(l)
				if len(f) == 4 {
					counts[f[2]] = f[3]
				}
			}
			if strings.HasPrefix(l, "SITE R1") {
				n++
			}
		}
		d.Extra["instrumented_map_range_sites"] = n
		d.Extra["instrumented_sites_by_package"] = counts
	}
	return d
}

// ---------------------------------------------------------------------------

type feats map[string]bool

func (f feats) Status(name string) compile.FeatureStatus {
	if f[name] {
		return compile.ENABLED
	}
	return compile.DISABLED
}

type ext struct {
	calls  int
	failAt int
	stamp  bool // ExtendModel hands back a model that carries the number of the call that made it
	models int
}

// stampedModel is a replacement model whose only difference from the original is a field saying in
// which ExtendModel call it was made: a callback whose result depends on how often it was called
// before. The compiler calls ExtendModel once per module in dependency order; if that order depended
// on a map, the reflective dump of the ModelSet would show it.
type stampedModel struct {
	schema.Model
	MadeInCall int
}

var errExt = fmt.Errorf("SIMFAULT-extensions")

func (e *ext) step() error {
	e.calls++
	if e.failAt > 0 && e.calls == e.failAt {
		return errExt
	}
	return nil
}
func (e *ext) NodeCardinality(parse.NodeType) map[parse.NodeType]parse.Cardinality { return nil }
func (e *ext) ExtendModelSet(m schema.ModelSet) (schema.ModelSet, error)           { return m, e.step() }
func (e *ext) ExtendModel(p parse.Node, m schema.Model, t schema.Tree) (schema.Model, error) {
	err := e.step()
	if e.stamp && err == nil && m != nil {
		e.models++
		return stampedModel{m, e.models}, nil
	}
	return m, err
}
func (e *ext) ExtendRpc(p parse.Node, r schema.Rpc) (schema.Rpc, error) { return r, e.step() }
func (e *ext) ExtendNotification(p parse.Node, n schema.Notification) (schema.Notification, error) {
	return n, e.step()
}
func (e *ext) ExtendTree(p parse.Node, t schema.Tree) (schema.Tree, error) { return t, e.step() }
func (e *ext) ExtendContainer(p parse.Node, c schema.Container) (schema.Container, error) {
	return c, e.step()
}
func (e *ext) ExtendList(p parse.Node, l schema.List) (schema.List, error) { return l, e.step() }
func (e *ext) ExtendLeaf(p parse.Node, l schema.Leaf) (schema.Leaf, error) { return l, e.step() }
func (e *ext) ExtendLeafList(p parse.Node, l schema.LeafList) (schema.LeafList, error) {
	return l, e.step()
}
func (e *ext) ExtendChoice(p parse.Node, c schema.Choice) (schema.Choice, error) { return c, e.step() }
func (e *ext) ExtendCase(p parse.Node, c schema.Case) (schema.Case, error)       { return c, e.step() }
func (e *ext) ExtendType(p parse.Node, base schema.Type, t schema.Type) (schema.Type, error) {
	return t, e.step()
}
func (e *ext) ExtendMust(p parse.Node, m parse.Node) (string, error) { return "", e.step() }
func (e *ext) ExtendOpdCommand(p parse.Node, c schema.OpdCommand) (schema.OpdCommand, error) {
	return c, e.step()
}
func (e *ext) ExtendOpdOption(p parse.Node, c schema.OpdOption) (schema.OpdOption, error) {
	return c, e.step()
}
func (e *ext) ExtendOpdArgument(p parse.Node, c schema.OpdArgument) (schema.OpdArgument, error) {
	return c, e.step()
}

// ---------------------------------------------------------------------------

func libFrame() string {
	var pcs [64]uintptr
	n := runtime.Callers(2, pcs[:])
	fr := runtime.CallersFrames(pcs[:n])
	for {
		f, more := fr.Next()
		if strings.HasPrefix(f.Function, "github.com/sdcio/yang-parser/") && !strings.Contains(f.Function, "zz_verifsimrt") && !strings.HasSuffix(f.Function, ".recover") {
			return strings.TrimPrefix(f.Function, "github.com/sdcio/yang-parser/")
		}
		if !more {
			return "?"
		}
	}
}

// schedTape, when set, draws the interleaving of the compiler's own goroutines (trees whose compiler
// starts goroutines: simrt.ConcurrentCompile); nil means the reference schedule (lowest worker first,
// run to completion).
var schedTape *tape.Tape
var schedSwitches, schedSteps int

// underScheduler runs f as worker 0 of a baton scheduler when the compiler under test is concurrent;
// goroutines it starts (simrt.Go) become workers, its channels, locks, Once and WaitGroup operations
// are switch points. Otherwise it just calls f.
func underScheduler(r *result, f func()) {
	if !simrt.ConcurrentCompile {
		f()
		return
	}
	simrt.ResetChannels()
	simrt.ResetSync()
	simrt.Sim = &simrt.Simulator{Spawn: sched.Spawn, Blocked: sched.Blocked, Event: sched.Unlocked}
	simrt.YieldHook = sched.Yield
	simrt.BlockedHook, simrt.UnlockHook = sched.Blocked, sched.Unlocked
	defer func() {
		simrt.Sim, simrt.YieldHook, simrt.BlockedHook, simrt.UnlockHook = nil, nil, nil, nil
	}()
	t := schedTape
	strategy, param := 0, 1
	if t != nil {
		strategy, param = t.Draw(3), 1+t.Draw(6)
	}
	pick := func(runnable []int, last int) int {
		if t == nil {
			for _, id := range runnable {
				if id == last {
					return id
				}
			}
			return runnable[0]
		}
		if strategy == 1 { // sticky
			for _, id := range runnable {
				if id == last && t.Draw(param+1) != 0 {
					return id
				}
			}
		}
		return runnable[t.Draw(len(runnable))]
	}
	s := sched.New(pick)
	if t != nil {
		s.Level = []uint32{0, 2, 16}[t.Draw(3)]
	}
	s.MaxSteps = 3000000
	s.AllWorkers = true
	s.YieldBudget = 15000 // (a fraction of a second of hand-offs per compile, seven compiles per case; the rest of a long compile runs at native speed)
	s.Add(func() {
		defer func() {
			if p := recover(); p != nil {
				r.panicked = true
				r.pval = fmt.Sprint(p)
				r.pframe = libFrame()
			}
		}()
		f()
	})
	var wg sync.WaitGroup
	s.Run(func(body func()) {
		wg.Add(1)
		go func() { defer wg.Done(); body() }()
	})
	schedSteps += len(s.Steps)
	last := -1
	for _, st := range s.Steps {
		if st.Worker != last && last >= 0 {
			schedSwitches++
		}
		last = st.Worker
	}
	if s.Abandoned() {
		super.EndProcessAfterCase()
		states := s.States()
		if s.Overrun {
			r.hung = "no-progress-under-scheduler"
		} else if !states[0].Done {
			var sites []string
			for _, ws := range states {
				if !ws.Done {
					sites = append(sites, ws.Site)
				}
			}
			r.hung = "deadlock@" + strings.Join(sites, ",")
		}
		return // (compile returned but a goroutine it started is blocked for good: not this property's business)
	}
	wg.Wait()
	s.Close()
}

// freshProcess has a new process of this binary re-create the case from its tape so far and do the
// reference compile, and returns "<verdict> <hash of the canonical dump>".
func freshProcess(genTape []uint32) (string, bool) {
	dir := os.Getenv("VERIF_WORKDIR")
	if dir == "" {
		dir = os.TempDir()
	}
	tf := filepath.Join(dir, fmt.Sprintf("iso-%d.json", os.Getpid()))
	of := tf + ".out"
	b, _ := json.Marshal(genTape)
	if err := os.WriteFile(tf, b, 0o644); err != nil {
		return err.Error(), false
	}
	defer os.Remove(tf)
	defer os.Remove(of)
	cmd := exec.Command(os.Args[0], "-mode=one", "-file="+tf)
	cmd.Env = append(os.Environ(), "VERIF_C11_ISOLATE_OUT="+of)
	done := make(chan error, 1)
	go func() { _, err := cmd.Output(); done <- err }()
	var err error
	select {
	case err = <-done:
	case <-time.After(60 * time.Second):
		if cmd.Process != nil {
			cmd.Process.Kill()
		}
		<-done
		return "timed out", false
	}
	out, _ := os.ReadFile(of)
	if l := strings.TrimSpace(string(out)); strings.HasPrefix(l, "ISOLATED ") {
		return strings.TrimPrefix(l, "ISOLATED "), true
	}
	return fmt.Sprintf("no answer (err=%v)", err), false
}

type result struct {
	hung     string // the compile did not return under the scheduler (deadlock among its goroutines / step limit)
	parseErr error
	err      error
	panicked bool
	pval     string
	pframe   string
	strict   string
	canon    string
	dumpOK   bool
}

func (r result) verdict() string {
	switch {
	case r.panicked:
		return "PANIC"
	case r.parseErr != nil:
		return "PARSE-ERROR"
	case r.err != nil:
		return "ERROR"
	}
	return "OK"
}

// compileOnce parses the texts in the given order with shared interners and compiles them.
var filters = []struct {
	name string
	f    compile.SchemaFilter
}{
	{"none", nil}, {"none", nil}, {"IsConfig", compile.IsConfig}, {"IsConfigOrState", compile.IsConfigOrState()},
	{"IncludeState(false)", compile.IncludeState(false)}, {"IsState", compile.IsState},
}

// the schema filter of the current case (an explicit input: the same for the reference run and every other run)
var curFilter compile.SchemaFilter

func compileOnce(texts map[string]string, order []string, fc compile.FeaturesChecker, ex compile.Extensions, skipUnknown bool, wantDump bool) (r result) {
	defer func() {
		if p := recover(); p != nil {
			r.panicked = true
			r.pval = fmt.Sprint(p)
			r.pframe = libFrame()
		}
	}()
	si, ai := parse.NewStringInterner(), parse.NewArgInterner()
	mods := map[string]*parse.Tree{}
	var card parse.NodeCardinality
	if ex != nil {
		card = ex.NodeCardinality
	}
	for _, name := range order {
		t, err := parse.ParseWithInterners(name+".yang", texts[name], card, si, ai)
		if err != nil {
			r.parseErr = err
			return
		}
		mods[name] = t // (the key under which the caller supplies the tree: the module's name, or name@date for a second revision)
	}
	var ms schema.ModelSet
	underScheduler(&r, func() {
		if ex == nil {
			ms, r.err = compile.CompileParseTrees(nil, mods, fc, skipUnknown, curFilter)
		} else {
			ms, r.err = compile.CompileParseTrees(ex, mods, fc, skipUnknown, curFilter)
		}
	})
	if r.panicked || r.hung != "" {
		return
	}
	if r.err == nil && wantDump {
		if ms == nil {
			r.err = nil
			r.strict, r.canon, r.dumpOK = "<nil modelset>", "<nil modelset>", true
			return
		}
		var ok1, ok2 bool
		r.strict, ok1 = dump.Dump(ms, false)
		r.canon, ok2 = dump.Dump(ms, true)
		r.dumpOK = ok1 && ok2
	}
	return
}

type orderRec struct {
	t        *tape.Tape
	applied  []string // site:perm for executions with n>=2
	nontriv  bool
	siteMax  map[string]int
	siteHits map[string]int
	st       *super.Stats
}

func (o *orderRec) hook(site string, n int) []int {
	if o.st != nil {
		o.siteHits[site]++
		if n > o.siteMax[site] {
			o.siteMax[site] = n
		}
	}
	if n < 2 {
		return nil
	}
	p := o.t.Perm(n)
	id := true
	for i, v := range p {
		if v != i {
			id = false
			break
		}
	}
	if !id {
		o.nontriv = true
		o.applied = append(o.applied, fmt.Sprintf("%s:%v", site, p))
	}
	return p
}

func clip(s string, n int) string {
	if len(s) > n {
		return s[:n] + "..."
	}
	return s
}

func (w world) RunCase(t *tape.Tape, st *super.Stats) *super.Violation {
	inc := func(k string) {
		if st != nil {
			st.Inc(k)
		}
	}
	ill := t.Draw(20) >= 11
	set := genyang.GenerateSet(t, ill)
	texts := set.Texts()
	names := set.Names()
	canonOrder := append([]string(nil), names...)
	sort.Strings(canonOrder)
	fc := feats{}
	for _, f := range set.Features {
		fc[f] = true
	}
	// skipUnknown=true (the tolerant mode of yangc-like tools) is a configuration
	// flag, not part of "any set of parsed modules x orders"; it is not exercised
	// (see DESIGN.md section 6, observation O-1: nil-module dereferences in that mode).
	skipUnknown := false
	fi := t.Draw(len(filters))
	curFilter = filters[fi].f
	inc("filter:" + filters[fi].name)
	setDesc := func() string {
		var b strings.Builder
		fmt.Fprintf(&b, "ill-formedness operators: %v; enabled features: %v; skipUnknown=%v; schema filter: %s\n", set.Ops, set.Features, skipUnknown, filters[fi].name)
		for _, n := range canonOrder {
			fmt.Fprintf(&b, "----- %s.yang\n%s", n, texts[n])
		}
		return b.String()
	}
	if st != nil {
		for _, op := range set.Ops {
			st.Inc("reach:op:" + op)
		}
		for p := range set.Probes {
			st.Inc("reach:" + p)
		}
		st.Inc("sets")
		if ill {
			st.Inc("sets_ill_formed")
		}
	}
	super.SetHangInfo(setDesc)
	if d := os.Getenv("VERIF_C11_DUMPSET"); d != "" {
		// debugging aid: write the case's module texts (replay a crash with this set to see what was compiled)
		for n, txt := range texts {
			os.WriteFile(d+"/"+n+".yang", []byte(txt), 0o644)
		}
		os.WriteFile(d+"/DESC", []byte(fmt.Sprintf("ops=%v features=%v filter=%s probes=%v\n", set.Ops, set.Features, filters[fi].name, set.Probes)), 0o644)
	}

	// R0: reference
	simrt.Order = nil
	r0 := compileOnce(texts, canonOrder, fc, nil, skipUnknown, true)
	if out := os.Getenv("VERIF_C11_ISOLATE_OUT"); out != "" {
		// this process exists to compile this one set, first thing after its start, and say what came out
		os.WriteFile(out, []byte(fmt.Sprintf("ISOLATED %s %016x\n", r0.verdict(), super.Hash(r0.canon))), 0o644)
		os.Exit(0)
	}
	// "identical on every run" includes a run in a process that has done nothing else: this process has
	// compiled the sets of its earlier cases. One case in twelve asks a fresh process for the reference.
	if t.Rare(12) && r0.parseErr == nil && !r0.panicked && r0.hung == "" && (r0.err != nil || r0.dumpOK) {
		if want, ok := freshProcess(t.Recorded()); !ok {
			super.Trouble("fresh-process reference: " + clip(want, 300))
		} else {
			inc("reference_compiles_repeated_in_a_fresh_process")
			if got := fmt.Sprintf("%s %016x", r0.verdict(), super.Hash(r0.canon)); got != want {
				return &super.Violation{Class: "history-dependent-outcome", Sig: "history-dependent-outcome|" + r0.verdict() + "-vs-" + strings.SplitN(want, " ", 2)[0],
					Detail: fmt.Sprintf("the reference compile of this set gives a different outcome in a fresh process than in this process, which compiled other sets before (verdict and hash of the canonical schema dump: here %q, fresh process %q; error here: %v)\n%s", got, want, r0.err, setDesc())}
			}
		}
	}
	inc("compiles")
	inc("verdict0:" + r0.verdict())
	if super.Noting() {
		super.Note(r0.verdict(), fmt.Sprint(r0.err), fmt.Sprint(super.Hash(r0.canon)))
	}
	if r0.parseErr != nil {
		// generator produced text the parser rejects: not this property's business
		inc("gen:parse_rejected")
		if os.Getenv("VERIF_DEBUG_ERR") == "PARSE" {
			fmt.Fprintf(os.Stderr, "PARSE-ERR %v\n", r0.parseErr)
		}
		if st != nil {
			st.Seen("parse_rejects", super.Hash(r0.parseErr.Error()[strings.Index(r0.parseErr.Error(), ":")+1:]))
		}
		return nil
	}
	if r0.hung != "" {
		return &super.Violation{Class: "hang", Sig: "hang|" + strings.SplitN(r0.hung, "@", 2)[0],
			Detail: fmt.Sprintf("compile does not return under the reference schedule of its own goroutines: %s\n%s", r0.hung, setDesc())}
	}
	if r0.panicked {
		return &super.Violation{Class: "panic-escaped", Sig: "panic-escaped|" + r0.pframe,
			Detail: fmt.Sprintf("compile panicked (reference order): %s\n%s", clip(r0.pval, 400), setDesc())}
	}
	if r0.err == nil && !r0.dumpOK {
		inc("observed:dump_too_large")
		return nil
	}
	if st != nil && r0.err != nil {
		st.Seen("error_kinds", super.Hash(errKind(r0.err.Error())))
		if len(set.Ops) == 0 {
			st.Inc("wellformed_err:" + errKind(r0.err.Error()))
			if os.Getenv("VERIF_DEBUG_ERR") != "" && strings.Contains(r0.err.Error(), os.Getenv("VERIF_DEBUG_ERR")) {
				fmt.Fprintf(os.Stderr, "WELLFORMED-ERR %s\n%s\n", r0.err.Error(), setDesc())
			}
		}
	}

	J := 6
	if super.Tier() == "thorough" {
		J = 24
	}
	setKey := super.Hash(setDesc())
	var stampRef result
	haveStampRef := false
	for j := 0; j < J; j++ {
		// module supply order
		order := append([]string(nil), canonOrder...)
		p := t.Perm(len(order))
		po := make([]string, len(order))
		for i := range order {
			po[i] = order[p[i]]
		}
		// history: another compile first
		if t.Rare(6) {
			other := genyang.GenerateSet(t, t.Coin())
			simrt.Order = nil
			func() {
				defer func() { recover() }()
				save := curFilter
				curFilter = nil
				compileOnce(other.Texts(), other.Names(), feats{}, nil, false, false)
				curFilter = save
			}()
			inc("fault:history-compile")
		}
		var ex *ext
		ref := r0 // what this run is compared with
		if t.Rare(5) {
			ex = &ext{}
			if t.Coin() {
				ex.failAt = 1 + t.Draw(12)
			} else if t.Coin() && r0.err == nil {
				// a callback with a memory: every model it hands back carries the number of the call that made it.
				// The reference for such a run is a run with the same kind of callback in the reference order.
				ex.stamp = true
				if !haveStampRef {
					simrt.Order = nil
					stampRef = compileOnce(texts, canonOrder, fc, &ext{stamp: true}, skipUnknown, true)
					haveStampRef = true
					inc("compiles")
				}
				ref = stampRef
				inc("fault:extensions-callback-with-memory")
			}
		}
		rec := &orderRec{t: t, st: st, siteMax: map[string]int{}, siteHits: map[string]int{}}
		simrt.Order = rec.hook
		schedTape = t
		sw0 := schedSwitches
		var rj result
		if ex != nil {
			rj = compileOnce(texts, po, fc, ex, skipUnknown, true)
		} else {
			rj = compileOnce(texts, po, fc, nil, skipUnknown, true)
		}
		simrt.Order = nil
		schedTape = nil
		if st != nil && simrt.ConcurrentCompile {
			st.Inc("compiles_under_scheduler")
			st.Add("fault:schedule-switch", int64(schedSwitches-sw0))
		}
		inc("compiles")
		if super.Noting() {
			super.Note(rj.verdict(), fmt.Sprint(rj.err), fmt.Sprint(super.Hash(rj.canon)), fmt.Sprint(super.Hash(rj.strict)), strings.Join(rec.applied, ";"))
		}
		if st != nil {
			st.Add("fault:map-order-permutation", int64(len(rec.applied)))
			if fmt.Sprint(po) != fmt.Sprint(canonOrder) {
				st.Inc("fault:module-order-permutation")
			}
			for s, n := range rec.siteMax {
				st.Max("max:keys@"+s, int64(n))
			}
			for s, n := range rec.siteHits {
				st.Add("sitehits@"+s, int64(n))
			}
			if rec.nontriv {
				st.Seen("orders", super.Hash(fmt.Sprint(setKey), strings.Join(rec.applied, ";"), fmt.Sprint(po)))
			}
		}
		what := fmt.Sprintf("run %d: module order %v, %d non-identity map-order permutations", j+1, po, len(rec.applied))
		siteList := func() string {
			l := rec.applied
			if len(l) > 12 {
				l = l[:12]
			}
			return strings.Join(l, "\n  ")
		}
		if rj.hung != "" {
			return &super.Violation{Class: "hang", Sig: "hang|" + strings.SplitN(rj.hung, "@", 2)[0],
				Detail: fmt.Sprintf("compile does not return under a drawn schedule of its own goroutines: %s\n%s\n%s", rj.hung, what, setDesc())}
		}
		if rj.panicked {
			return &super.Violation{Class: "panic-escaped", Sig: "panic-escaped|" + rj.pframe,
				Detail: fmt.Sprintf("compile panicked: %s\n%s\npermutations:\n  %s\n%s", clip(rj.pval, 400), what, siteList(), setDesc())}
		}
		if rj.parseErr != nil {
			return &super.Violation{Class: "order-dependent-verdict", Sig: "order-dependent-verdict|parse",
				Detail: fmt.Sprintf("texts parse in the reference order but not in order %v: %v\n%s", po, rj.parseErr, setDesc())}
		}
		if ex != nil && ex.failAt > 0 && ex.calls >= ex.failAt {
			inc("fault:extensions-error")
			if rj.err == nil {
				return &super.Violation{Class: "callback-error-swallowed", Sig: "callback-error-swallowed|extensions",
					Detail: fmt.Sprintf("Extensions callback %d returned an error but compilation reported success\n%s\n%s", ex.failAt, what, setDesc())}
			}
			continue // verdict necessarily differs from R0 when R0 succeeded
		}
		if (rj.err == nil) != (ref.err == nil) {
			return &super.Violation{Class: "order-dependent-verdict", Sig: "order-dependent-verdict|" + errKind(fmt.Sprint(ref.err)+fmt.Sprint(rj.err)),
				Detail: fmt.Sprintf("reference run: err=%v\n%s: err=%v\npermutations:\n  %s\n%s", ref.err, what, rj.err, siteList(), setDesc())}
		}
		if rj.err != nil {
			if rj.err.Error() != ref.err.Error() {
				inc("observed:error_text_differs_between_orders")
			}
			continue
		}
		if !rj.dumpOK {
			continue
		}
		if rj.canon != ref.canon {
			path, a, b := dump.FirstDiff(ref.canon, rj.canon)
			return &super.Violation{Class: "order-dependent-schema", Sig: "order-dependent-schema|" + stripIdx(path),
				Detail: fmt.Sprintf("compiled schema differs at %s\n  reference: %s\n  this run:  %s\n%s\npermutations:\n  %s\n%s", path, clip(a, 300), clip(b, 300), what, siteList(), setDesc())}
		}
		if rj.strict != ref.strict {
			path, _, _ := dump.FirstDiff(ref.strict, rj.strict)
			inc("observed:order_only_difference@" + lastField(path))
		}
		inc("runs_equal_schema")
	}
	if st != nil {
		st.Sample(map[string]any{"modules": canonOrder, "ops": set.Ops, "reference_verdict": r0.verdict(), "reference_error": fmt.Sprint(r0.err), "first_module_text": clip(texts[canonOrder[0]], 600)})
		super.Event("%016x %s", setKey, r0.verdict())
	}
	return nil
}

func lastField(p string) string {
	parts := strings.Split(p, "/")
	for i := len(parts) - 1; i >= 0; i-- {
		if parts[i] != "" && !strings.HasPrefix(parts[i], "[") && !strings.HasPrefix(parts[i], "&") && !strings.HasPrefix(parts[i], "\"") {
			return parts[i]
		}
	}
	return p
}

// stripIdx removes map keys and element values from an attribute path so that
// a signature names the attribute, not the particular generated names.
func stripIdx(p string) string {
	parts := strings.Split(p, "/")
	var out []string
	for _, s := range parts {
		if strings.HasPrefix(s, "[") {
			out = append(out, "[]")
			continue
		}
		if strings.HasPrefix(s, "\"") {
			continue
		}
		out = append(out, s)
	}
	if len(out) > 6 {
		out = out[len(out)-6:]
	}
	return strings.Join(out, "/")
}

// errKind reduces an error text to its kind (digits and quoted names removed).
func errKind(s string) string {
	var b strings.Builder
	for _, w := range strings.Fields(s) {
		if strings.ContainsAny(w, "0123456789:/") {
			continue
		}
		b.WriteString(w + " ")
		if b.Len() > 60 {
			break
		}
	}
	return strings.TrimSpace(b.String())
}

func main() {
	debug.SetMaxStack(64 << 20)
	super.Main(world{}, super.Config{
		QuickCases:       250,
		ThoroughSeconds:  900,
		CaseTimeout:      30e9,
		WatchdogTimeout:  10e9,
		MinimiseBudget:   300,
		Procs:            16,
		CrashIsViolation: true,
		HangIsViolation:  true,
	})
}
