//go:build c07sched

package c07

// Schedule mode: the same Parse call, but the lexer goroutine and the parser
// are workers of the baton scheduler and their channel is simulated (simrewrite
// rule R4 in package parse), so the tape decides every interleaving at every
// channel operation, goroutine creation and instrumented yield point. This
// closes what the synctest bubbles cannot decide: outcomes that depend on WHICH
// goroutine runs first.

import (
	"fmt"
	"sort"
	"strings"
	"sync"

	simrt "github.com/sdcio/yang-parser/zz_verifsimrt"

	"verif/sched"
	"verif/super"
	"verif/tape"
)

const schedAvailable = true

func runScheduled(in input, withCard bool, t *tape.Tape) (o outcome, v *super.Violation, steps, switches int) {
	simrt.ResetChannels()
	simrt.Sim = &simrt.Simulator{Spawn: sched.Spawn, Blocked: sched.Blocked, Event: sched.Unlocked}
	simrt.YieldHook = sched.Yield
	simrt.BlockedHook, simrt.UnlockHook = sched.Blocked, sched.Unlocked
	defer func() { simrt.Sim = nil; simrt.YieldHook = nil; simrt.BlockedHook, simrt.UnlockHook = nil, nil }()
	strategy := t.Draw(3)
	param := 1 + t.Draw(6)
	pick := func(runnable []int, last int) int {
		switch strategy {
		case 1: // sticky
			for _, r := range runnable {
				if r == last && t.Draw(param+1) != 0 {
					return r
				}
			}
		case 2: // starve one worker as long as possible
			fav := param % 2
			for _, r := range runnable {
				if r%2 == fav {
					return r
				}
			}
		}
		return runnable[t.Draw(len(runnable))]
	}
	s := sched.New(pick)
	s.Level = []uint32{0, 1, 4}[t.Draw(3)]
	// a liveness bound far above what any terminating parse of this text needs
	// (observed: fewer than 40 steps per input byte at the densest yield level)
	s.MaxSteps = 20000 + 400*len(in.text)
	s.AllWorkers = true
	s.YieldBudget = s.MaxSteps / 2
	s.Add(func() { o = doParse(in, nil, nil, withCard) })
	var wg sync.WaitGroup
	s.Run(func(body func()) {
		wg.Add(1)
		go func() { defer wg.Done(); body() }()
	})
	steps = len(s.Steps)
	last := -1
	for _, st := range s.Steps {
		if st.Worker != last && last >= 0 {
			switches++
		}
		last = st.Worker
	}
	desc := fmt.Sprintf("schedule mode (strategy %d/%d, yield level %d/16, %d steps, %d switches)\ninput %s (%d bytes): %q", strategy, param, s.Level, steps, switches, in.name, len(in.text), clip(in.text, 1200))
	if s.Abandoned() {
		super.EndProcessAfterCase() // parked workers can never be resumed
		states := s.States()
		var sites []string
		for _, ws := range states[1:] {
			if !ws.Done {
				sites = append(sites, ws.Site)
			}
		}
		sort.Strings(sites)
		if s.Overrun {
			return o, &super.Violation{Class: "hang", Sig: "hang|no-progress-under-scheduler", Detail: "still running after the step limit\n" + desc}, steps, switches
		}
		if !states[0].Done {
			return o, &super.Violation{Class: "hang", Sig: "hang|deadlock", Detail: "parse never returns under this schedule: parser blocked at " + states[0].Site + ", other goroutines blocked at " + strings.Join(sites, ",") + "\n" + desc}, steps, switches
		}
		return o, &super.Violation{Class: "leak", Sig: "leak|blocked-under-scheduler@" + siteFn(strings.Join(sites, ",")), Detail: fmt.Sprintf("Parse returned (err=%v) but a goroutine it started is blocked for good at %s\n%s", o.err, strings.Join(sites, ","), desc)}, steps, switches
	}
	wg.Wait()
	s.Close()
	return o, nil, steps, switches
}

// siteFn reduces "parse/lex.go:156:2:send" to its kind so that signatures do not depend on line numbers.
func siteFn(s string) string {
	var out []string
	for _, p := range strings.Split(s, ",") {
		f := strings.Split(p, ":")
		out = append(out, f[len(f)-1])
	}
	return strings.Join(out, ",")
}
