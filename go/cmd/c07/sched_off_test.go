//go:build !c07sched

package c07

import (
	"verif/super"
	"verif/tape"
)

// Built without the R4-rewritten parse package (simrewrite could not simulate a
// concurrency construct of the current tree, e.g. a select statement): the
// schedule mode is off, the synctest-bubble mode is unaffected.
const schedAvailable = false

func runScheduled(in input, withCard bool, t *tape.Tape) (o outcome, v *super.Violation, steps, switches int) {
	return
}
