// World C07: parse.Parse on texts that end or are damaged at arbitrary bytes.
//
// Real code: package parse in full (lexer goroutine, unbuffered channel,
// recursive-descent parser, statement checks, symbol building), NOT
// instrumented. No stub: the input text is the only other party. Every case
// runs inside one testing/synctest bubble: synctest.Wait() gives quiescence
// ("everything that will ever happen has happened"), so a goroutine that is
// still there afterwards is leaked for good, and a parser that waits forever
// for the lexer is reported by the bubble as a deadlock. A goroutine that
// spins is invisible to synctest; the worker's wall-clock watchdog (a liveness
// bound on a sequential computation, not a source of scheduling) dumps stacks
// and the supervisor confirms the case alone.
package c07

import (
	"fmt"
	"os"
	"regexp"
	"runtime"
	"sort"
	"strconv"
	"strings"
	"testing"
	"testing/synctest"

	"github.com/sdcio/yang-parser/parse"

	"verif/genyang"
	"verif/super"
	"verif/tape"
)

type world struct{ t *testing.T }

func (world) Property() string { return "C07" }
func (world) Level() string    { return "exploration" }

func (world) Describe() super.Description {
	return super.Description{
		Rule:        "A case = one base text (a tape-generated valid module or submodule rendered with lexical variety: unquoted/single/double-quoted/'+'-concatenated arguments, comments between tokens, CRLF, tabs; or an ill-formed module; or a structurally damaged module — one or two whole statements dropped, duplicated, moved into another block or swapped, a keyword replaced, an argument removed/added/garbled, the text staying lexically well-formed; or a raw byte/token string) and one fault operator applied to it: none; truncation at EVERY byte offset (exhaustive for that text, up to 1500 bytes, else a drawn window); 1..3 byte flips/inserts/deletes; token drop/duplicate/swap; trailing garbage after the final '}', and the same text followed by trivia only (a // comment without newline, /* */, blanks) at bracket depth 0; an early statement that fails its check; a sequence of 2..4 parses sharing one pair of interners; or an ARGUMENT SWEEP (for every keyword of the module whose argument has a grammar of its own — value, position, min/max-elements, fraction-digits, range, length, dates, booleans, key, unique, path — one statement of it takes each of 28, for numbers 55, garbled arguments in turn). All parses of a case run inside one synctest bubble; in a third of the cases up to six of the same inputs are parsed again in SCHEDULE MODE: lexer goroutine and parser become workers of the tape-driven baton scheduler, their channel is simulated (simrewrite R4 on package parse: go statement, send, receive, close, range over channel) and 288 yield points are instrumented, so every interleaving decision is a tape draw; the outcome must equal the free-running one and nothing may stay blocked. distinct_nontrivial = distinct non-empty input texts actually parsed (hash of the bytes).",
		DistinctSet: "texts",
		Assumptions: []string{
			"testing/synctest (go1.26.8): Wait() returns only when every other goroutine of the bubble is durably blocked or gone; a goroutine count that stays above the pre-call count after Wait() is a goroutine that will never finish",
			"a spinning goroutine is detected by a wall-clock watchdog (3 s for texts that parse in well under 1 ms) and confirmed by re-running the case alone with a larger budget",
			"position oracle: an error must contain <name>:<line>:<col> with 1<=line<=number of lines (1+count of LF) and 0<=col<=length of that line+1",
			"lexer and parser exchange data only through one unbuffered channel, so outcomes do not depend on the interleaving; this is not assumed silently: the determinism self-test compares outcomes across GOMAXPROCS 1/4/16",
		},
		Components: map[string]any{
			"real": []string{"parse (lex.go goroutine+channel, parse.go, ast/arg/cardinality checks, symbol tables)"},
			"stub": []string{"none (the text is the only other party); NodeCardinality callback for extensions is nil or a two-entry table"},
		},
		FaultKinds: []string{"schedule-switch", "structure:stmt-drop", "structure:stmt-dup", "structure:stmt-move", "structure:stmt-swap", "structure:keyword", "structure:arg-toggle", "structure:arg-garble", "truncate", "byte-flip", "byte-insert", "byte-delete", "token-drop", "token-dup", "token-swap", "trailing-garbage", "trailing-trivia", "early-check-failure", "shared-interner-sequence", "argument-garble-sweep"},
	}
}

// input names: mostly plain, sometimes with characters a file name may well contain
var nameChoices = []string{"sim.yang", "sim.yang", "sim.yang", "dir/sub dir/sim.yang", "50%.yang", "a%sb%d.yang", "módulo.yang", "C:\\yang\\sim.yang", "sim@2020-01-01.yang", "x"}

type input struct {
	name, text string
}

// bubbleLeftovers lists the goroutines of the current synctest bubble other
// than the caller. The harness starts none, so after synctest.Wait() every one
// of them was started by the call under test and will never finish.
func bubbleLeftovers() (frames []string, dump string) {
	buf := make([]byte, 1<<20)
	n := runtime.Stack(buf, true)
	all := string(buf[:n])
	me := ""
	blocks := strings.Split(all, "\n\n")
	if len(blocks) > 0 {
		h := strings.SplitN(blocks[0], "\n", 2)[0]
		if i := strings.Index(h, "synctest bubble "); i >= 0 {
			me = strings.TrimRight(h[i:], "]:")
		}
	}
	if me == "" {
		return
	}
	for _, b := range blocks[1:] {
		lines := strings.Split(b, "\n")
		if !strings.Contains(lines[0], me+"]") && !strings.Contains(lines[0], me+",") {
			continue
		}
		if strings.Contains(b, "testing/synctest.Test") || strings.Contains(b, "internal/synctest.Run") {
			continue // the bubble's own bookkeeping goroutine
		}
		state := lines[0]
		if i := strings.Index(state, "["); i >= 0 {
			state = state[i+1:]
		}
		if i := strings.IndexAny(state, ",]"); i >= 0 {
			state = state[:i]
		}
		state = strings.TrimSuffix(strings.TrimSpace(state), " (durable)")
		var lib []string
		created := ""
		for _, l := range lines[1:] {
			if strings.HasPrefix(l, "github.com/sdcio/yang-parser/") {
				fn := strings.TrimPrefix(l, "github.com/sdcio/yang-parser/")
				if i := strings.LastIndex(fn, "("); i > 0 {
					fn = fn[:i]
				}
				if len(lib) < 2 {
					lib = append(lib, fn)
				}
			}
			if strings.HasPrefix(l, "created by ") {
				created = strings.TrimPrefix(strings.Fields(strings.TrimPrefix(l, "created by "))[0], "github.com/sdcio/yang-parser/")
			}
		}
		site := strings.Join(lib, "<")
		if site == "" {
			site = "created-by:" + created
		}
		frames = append(frames, state+"@"+site)
		dump += b + "\n\n"
	}
	sort.Strings(frames)
	return
}

type outcome struct {
	panicked bool
	pval     string
	pframe   string
	tree     *parse.Tree
	err      error
}

func libFrame() string {
	var pcs [64]uintptr
	n := runtime.Callers(2, pcs[:])
	fr := runtime.CallersFrames(pcs[:n])
	for {
		f, more := fr.Next()
		if strings.HasPrefix(f.Function, "github.com/sdcio/yang-parser/") && !strings.HasSuffix(f.Function, ".recover") {
			// a library function named recover only re-raises; the frames of the original panic are still below it
			return strings.TrimPrefix(f.Function, "github.com/sdcio/yang-parser/")
		}
		if !more {
			return "?"
		}
	}
}

func extCard(n parse.NodeType) map[parse.NodeType]parse.Cardinality { return nil }

// a caller that allows one extension statement under EVERY statement type (also under those the RFC tables have no entry for)
func extCardEverywhere(n parse.NodeType) map[parse.NodeType]parse.Cardinality {
	return map[parse.NodeType]parse.Cardinality{parse.NodeConfigdHelp: {Start: '0', End: '1'}}
}

// ... or only under a few
func extCardSome(n parse.NodeType) map[parse.NodeType]parse.Cardinality {
	switch n {
	case parse.NodeUnknown, parse.NodeDescription, parse.NodeLeaf, parse.NodeModule:
		return map[parse.NodeType]parse.Cardinality{parse.NodeConfigdHelp: {Start: '0', End: 'n'}}
	}
	return map[parse.NodeType]parse.Cardinality{}
}

var cardMode int

func doParse(in input, si *parse.StringInterner, ai *parse.ArgInterner, withCard bool) (o outcome) {
	defer func() {
		if r := recover(); r != nil {
			o.panicked = true
			o.pval = fmt.Sprint(r)
			o.pframe = libFrame()
		}
	}()
	var card parse.NodeCardinality
	if withCard {
		card = []parse.NodeCardinality{extCard, extCardEverywhere, extCardSome}[cardMode%3]
	}
	if si != nil {
		o.tree, o.err = parse.ParseWithInterners(in.name, in.text, card, si, ai)
	} else {
		o.tree, o.err = parse.Parse(in.name, in.text, card)
	}
	return
}

func clip(s string, n int) string {
	if len(s) > n {
		return s[:n] + "..."
	}
	return s
}

func judge(in input, o outcome) *super.Violation {
	desc := func() string {
		return fmt.Sprintf("input %s (%d bytes): %q", in.name, len(in.text), clip(in.text, 1200))
	}
	if o.panicked {
		return &super.Violation{Class: "panic-escaped", Sig: "panic-escaped|" + o.pframe, Detail: "parse panicked: " + clip(o.pval, 300) + "\n" + desc()}
	}
	if o.err == nil {
		if o.tree == nil || o.tree.Root == nil {
			return &super.Violation{Class: "neither", Sig: "neither|nil-error-without-root", Detail: fmt.Sprintf("nil error but tree=%v root set=%v\n%s", o.tree != nil, o.tree != nil && o.tree.Root != nil, desc())}
		}
		return nil
	}
	msg := o.err.Error()
	// <name>:<line>:<col> is what the pinned tree writes; a reworded message may say "<name>, line 3,
	// column 5" or "<name> (3,5)": the name followed closely by two numbers, or the words line ... column
	posRe, rerr := regexp.Compile(regexp.QuoteMeta(in.name) + `\D{0,12}?(\d+)\D{1,12}?(\d+)`)
	if rerr != nil {
		return nil
	}
	ms := posRe.FindAllStringSubmatch(msg, -1)
	if strings.Contains(msg, in.name) {
		ms = append(ms, lineColWords.FindAllStringSubmatch(msg, -1)...)
	}
	if len(ms) == 0 {
		if !strings.Contains(msg, in.name) {
			return &super.Violation{Class: "error-without-position", Sig: "error-without-position|no-name", Detail: fmt.Sprintf("error does not name the input: %q\n%s", msg, desc())}
		}
		return &super.Violation{Class: "error-without-position", Sig: "error-without-position|no-line-col", Detail: fmt.Sprintf("error names the input but gives no line and column: %q\n%s", msg, desc())}
	}
	lines := strings.Split(in.text, "\n")
	okAny := false
	for _, m := range ms {
		ln, _ := strconv.Atoi(m[1])
		col, _ := strconv.Atoi(m[2])
		if ln >= 1 && ln <= len(lines) && col >= 0 && col <= len(lines[ln-1])+1 {
			okAny = true
		}
	}
	if !okAny {
		return &super.Violation{Class: "error-position-outside-input", Sig: "error-position-outside-input", Detail: fmt.Sprintf("no position in the error lies inside the text (%d lines): %q\n%s", len(lines), msg, desc())}
	}
	return nil
}

var lineColWords = regexp.MustCompile(`(?i)\bline\D{0,3}(\d+)\D{1,12}?(?:col|column|char|character|offset)\D{0,3}(\d+)`)

var currentInput string

func init() {
	super.HangInfo = func() string { return fmt.Sprintf("input: %q", clip(currentInput, 2000)) }
}

// runInputs parses the inputs sequentially inside one bubble.
type brief struct{ errNil, root, panicked bool }

// culprit is the index of the input runInputs was working on when it stopped.
var culprit int

func (w world) runInputs(ins []input, shared bool, withCard bool, st *super.Stats, outs *[]brief) (v *super.Violation) {
	var si *parse.StringInterner
	var ai *parse.ArgInterner
	idx := -1
	culprit = -1
	func() {
		defer func() {
			culprit = idx
			if r := recover(); r != nil {
				msg := fmt.Sprint(r)
				in := input{}
				if idx >= 0 && idx < len(ins) {
					in = ins[idx]
				}
				if v != nil && strings.Contains(msg, "blocked goroutines remain") {
					return // the leak was already reported from inside the bubble
				}
				if strings.Contains(msg, "all goroutines in bubble are blocked") {
					v = &super.Violation{Class: "hang", Sig: "hang|deadlock", Detail: fmt.Sprintf("parse never returns: parser and lexer goroutine wait for each other (%s)\ninput %s: %q", msg, in.name, clip(in.text, 1200))}
					return
				}
				if strings.Contains(msg, "blocked goroutines remain") {
					v = &super.Violation{Class: "leak", Sig: "leak|unattributed", Detail: msg}
					return
				}
				panic(r)
			}
		}()
		synctest.Test(w.t, func(t *testing.T) {
			if shared {
				si, ai = parse.NewStringInterner(), parse.NewArgInterner()
			}
			for i, in := range ins {
				idx = i
				currentInput = in.text
				before := runtime.NumGoroutine()
				o := doParse(in, si, ai, withCard)
				synctest.Wait()
				if outs != nil {
					*outs = append(*outs, brief{o.err == nil, o.tree != nil && o.tree.Root != nil, o.panicked})
				}
				after := runtime.NumGoroutine()
				if super.Noting() {
					// (the raw goroutine count is not part of the outcome: runtime helper goroutines outside the bubble come and go)
					// the error TEXT is not part of it either: which of several cardinality errors is named first follows Go's map order (not C07's business)
					super.Note(in.name, fmt.Sprint(o.err != nil), fmt.Sprint(o.panicked), fmt.Sprint(o.tree != nil && o.tree.Root != nil))
				}
				if st != nil {
					st.Inc("parses")
					if o.err == nil && !o.panicked {
						st.Inc("reach:parse_succeeded")
					} else if o.err != nil {
						st.Inc("reach:parse_error")
						switch {
						case strings.Contains(o.err.Error(), "unterminated quoted string"):
							st.Inc("reach:ended_inside_quoted_string")
						case strings.Contains(o.err.Error(), "unclosed comment"):
							st.Inc("reach:ended_inside_comment")
						case strings.Contains(o.err.Error(), "unterminated statement block"):
							st.Inc("reach:ended_inside_block")
						case strings.Contains(o.err.Error(), "cardinality mismatch"), strings.Contains(o.err.Error(), "invalid"):
							st.Inc("reach:error_from_statement_check")
						}
					}
					if in.text != "" {
						st.Seen("texts", super.Hash(in.text))
					}
				}
				var frames []string
				var dump string
				if after > before {
					// cheap pre-filter said "maybe"; the bubble scan decides
					frames, dump = bubbleLeftovers()
					if len(frames) == 0 && st != nil {
						st.Inc("observed:goroutine_count_rose_without_bubble_leftover")
					}
				}
				if len(frames) > 0 {
					site := strings.Join(frames, ";")
					v = &super.Violation{Class: "leak", Sig: "leak|" + site,
						Detail: fmt.Sprintf("%d goroutine(s) started by the call are still there after it returned (err=%v) and the bubble is quiescent:\n%s\ninput %s: %q", after-before, o.err, clip(dump, 1500), in.name, clip(in.text, 1200))}
					return
				}
				if jv := judge(in, o); jv != nil {
					v = jv
					return
				}
			}
		})
	}()
	return v
}

func tokens(s string) [][2]int {
	// crude token boundaries: runs of non-space, braces and semicolons apart
	var out [][2]int
	i := 0
	for i < len(s) {
		c := s[i]
		if c == ' ' || c == '\t' || c == '\n' || c == '\r' {
			i++
			continue
		}
		j := i + 1
		if c == '{' || c == '}' || c == ';' {
			out = append(out, [2]int{i, j})
			i = j
			continue
		}
		if c == '"' {
			for j < len(s) && s[j] != '"' {
				if s[j] == '\\' {
					j++
				}
				j++
			}
			if j < len(s) {
				j++
			}
			if j > len(s) {
				j = len(s)
			}
			out = append(out, [2]int{i, j})
			i = j
			continue
		}
		for j < len(s) && !strings.ContainsRune(" \t\r\n{};", rune(s[j])) {
			j++
		}
		out = append(out, [2]int{i, j})
		i = j
	}
	return out
}

var junkBytes = []string{"\"", "'", "{", "}", ";", "+", "\\", "/", "*", "//", "/*", "*/", "\x00", "\xff", "\xc3", "\n", "\r\n", "\t", " ", "a", "é",
	// a character the lexer treats specially next to a rune of 2, 3 and 4 bytes (widths differ: anything that backs up or peeks by "the last width" is exercised)
	"+é", "+€", "+😀", "é+", "€+ ", " +é;", "\"é", "é\"", "'€", "/é", "é/", "/*é", "é*/", "//€", "*😀", "{é", "é}", ";€", "\\é", "é\\", "\xe2\x82", "\xf0\x9f\x98", "\u2028", "\ufeff", "\u00a0",
	// line ends and blanks of other kinds
	"\r", "\r\r", "\n\r", "\f", "\v", "\u0085", "\u3000", " \n", "\t\n", "\\\n", "\\\r\n", "\"\n", "\xef\xbb", "\xef"}

func (w world) RunCase(t *tape.Tape, st *super.Stats) *super.Violation {
	inc := func(k string) {
		if st != nil {
			st.Inc(k)
		}
	}
	// base text
	var base string
	var baseRoot *genyang.Stmt // the statement tree behind base, when there is one
	kind := t.Pick(6, 4, 1, 4)
	if t.Rare(40) {
		kind = 4
	}
	switch kind {
	case 4: // a big or very deep text (one parse, no sweep): recursion depth, repeated re-scanning
		var b strings.Builder
		b.WriteString("module big { namespace \"urn:big\"; prefix big;\n")
		n := 500 + t.Draw(3000)
		switch t.Draw(5) {
		case 0:
			b.WriteString(strings.Repeat("container c { ", n) + strings.Repeat("} ", n-t.Draw(2)))
		case 1:
			b.WriteString("description \"a\"" + strings.Repeat(" + \"b\"", n) + ";")
		case 2:
			b.WriteString("description \"" + strings.Repeat("x", 100*n) + "\";")
		case 3:
			for i := 0; i < n; i++ {
				fmt.Fprintf(&b, "leaf l%d { type string; description \"line1\n      line2\n\tline3\"; }\n", i)
			}
		case 4:
			b.WriteString(strings.Repeat("/* c */ ", n) + strings.Repeat("// c\n", n))
		}
		b.WriteString("\n}\n")
		base = b.String()
		if t.Coin() {
			base = base[:t.Draw(len(base))]
		}
		inc("base:big_or_deep")
	case 0, 1, 3:
		set := genyang.GenerateSet(t, kind == 1)
		m := set.Mods[t.Draw(len(set.Mods))]
		if len(set.Touched) > 0 && t.Draw(4) > 0 {
			m = set.Touched[t.Draw(len(set.Touched))] // the module an ill-formedness operator worked on
		}
		root := m.Root
		if kind == 3 {
			// statement-level damage: the text stays well-formed, the statement rules break
			n := 1 + t.Draw(2)
			for i := 0; i < n; i++ {
				var what string
				root, what = root.DamageStructure(t)
				inc("fault:structure:" + strings.SplitN(what, ":", 2)[0])
			}
			if t.Rare(4) {
				// the top statement decides how everything below it is read: a file that is not a (sub)module at all -
				// its body under another keyword (an extension statement, a plain word, a body statement, the other
				// kind of module), with or without the header statements, or one of its statements alone
				root = root.Clone()
				switch kw := []string{"ex:ext", "x:y", "y", "container", "grouping", "extension", "module", "submodule"}[t.Draw(8)]; {
				case kw == root.Kw:
					if len(root.Kids) > 0 {
						root = root.Kids[t.Draw(len(root.Kids))]
						inc("fault:structure:top-is-one-body-statement")
					}
				default:
					root.Kw = kw
					inc("fault:structure:top-keyword")
				}
				if t.Coin() {
					var kids []*genyang.Stmt
					for _, k := range root.Kids {
						switch k.Kw {
						case "namespace", "prefix", "belongs-to", "yang-version", "import", "include", "revision", "organization", "contact":
						default:
							kids = append(kids, k)
						}
					}
					root.Kids = kids
					inc("fault:structure:top-without-header")
				}
			}
		}
		if root.Kw == "submodule" && root.Find("belongs-to") == nil {
			inc("reach:submodule_without_belongs_to")
			if root.Find("import") != nil {
				inc("reach:submodule_without_belongs_to_with_import")
			}
		}
		if root.Kw == "module" && (root.Find("namespace") == nil || root.Find("prefix") == nil) {
			inc("reach:module_without_namespace_or_prefix")
		}
		baseRoot = root
		if t.Draw(4) == 3 {
			base = root.Text()
		} else {
			base = root.Styled(t)
		}
		inc([]string{"base:valid_module", "base:ill_formed_module", "", "base:structurally_damaged_module"}[kind])
	case 2:
		var b []byte
		for n := t.Draw(40); n > 0; n-- {
			switch t.Draw(3) {
			case 0:
				b = append(b, junkBytes[t.Draw(len(junkBytes))]...)
			case 1:
				b = append(b, []string{"module", "leaf", "type", "container", "m", "string", "namespace", "prefix", "urn:x"}[t.Draw(9)]...)
				b = append(b, ' ')
			case 2:
				b = append(b, byte(t.Draw(256)))
			}
		}
		base = string(b)
		inc("base:raw")
	}
	if t.Rare(10) && kind != 4 {
		// something in front of or after the text: a byte-order mark, blank lines, a lone CR, a form feed
		pre := []string{"\ufeff", "\ufeff\ufeff", "\r", "\n\n", "\f", " \t", "\xef\xbb\xbf\r\n"}[t.Draw(7)]
		if t.Coin() {
			base = pre + base
		} else {
			base = base + pre
		}
		inc("reach:text_with_mark_or_odd_whitespace_around")
	}
	withCard := t.Rare(4)
	cardMode = t.Draw(3)
	name := "sim.yang"
	if t.Rare(5) {
		name = nameChoices[t.Draw(len(nameChoices))]
		inc("reach:unusual_input_name")
	}
	var ins []input
	shared := false
	op := t.Pick(3, 4, 3, 2, 1, 1, 1, 2)
	if kind == 4 {
		op = 0
	}
	if op == 7 && baseRoot == nil {
		op = 2
	}
	switch op {
	case 0: // no fault
		ins = []input{{name, base}}
		inc("op:none")
	case 1: // truncation at every byte (window if long)
		lo, hi := 0, len(base)
		// window: 1500 offsets, fewer for very long texts (the sweep re-parses the text
		// once per offset: keep a case below ~8 MB of parsed text)
		win := 1500
		if len(base) > 0 && 8<<20/len(base) < win {
			win = 8 << 20 / len(base)
			if win < 20 {
				win = 20
			}
		}
		if hi > win {
			lo = t.Draw(hi - win)
			hi = lo + win
		}
		for i := lo; i <= hi && i <= len(base); i++ {
			ins = append(ins, input{name, base[:i]})
		}
		if st != nil {
			st.Add("fault:truncate", int64(len(ins)))
			st.Inc("truncation_sweeps")
			if lo == 0 && hi == len(base) {
				st.Inc("truncation_sweeps_exhaustive")
			}
		}
	case 2: // byte damage
		b := []byte(base)
		for n := 1 + t.Draw(3); n > 0; n-- {
			switch t.Draw(3) {
			case 0:
				if len(b) > 0 {
					i := t.Draw(len(b))
					j := junkBytes[t.Draw(len(junkBytes))]
					b = append(b[:i:i], append([]byte(j), b[i+1:]...)...)
					inc("fault:byte-flip")
				}
			case 1:
				i := t.Draw(len(b) + 1)
				j := junkBytes[t.Draw(len(junkBytes))]
				b = append(b[:i:i], append([]byte(j), b[i:]...)...)
				inc("fault:byte-insert")
			case 2:
				if len(b) > 0 {
					i := t.Draw(len(b))
					b = append(b[:i:i], b[i+1:]...)
					inc("fault:byte-delete")
				}
			}
		}
		ins = []input{{name, string(b)}}
	case 3: // token operators
		tk := tokens(base)
		s := base
		if len(tk) >= 2 {
			i := t.Draw(len(tk))
			switch t.Draw(3) {
			case 0:
				s = base[:tk[i][0]] + base[tk[i][1]:]
				inc("fault:token-drop")
			case 1:
				s = base[:tk[i][1]] + " " + base[tk[i][0]:tk[i][1]] + base[tk[i][1]:]
				inc("fault:token-dup")
			case 2:
				j := t.Draw(len(tk))
				if i > j {
					i, j = j, i
				}
				if i != j {
					s = base[:tk[i][0]] + base[tk[j][0]:tk[j][1]] + base[tk[i][1]:tk[j][0]] + base[tk[i][0]:tk[i][1]] + base[tk[j][1]:]
				}
				inc("fault:token-swap")
			}
		}
		ins = []input{{name, s}}
	case 4: // trailing garbage: parser stops consuming while the lexer still produces
		g := []string{" trailing;", "}", " leaf x { type string; }", "\n\nmodule b { namespace \"urn:b\"; prefix b; }", " \"open", " /* open", "x"}[t.Draw(7)]
		ins = []input{{name, base + g}}
		inc("fault:trailing-garbage")
		// trailing TRIVIA after the same text (f21c): the text ends inside or right after a comment or blanks at bracket depth 0.
		// No tape draws, so stored replays keep their meaning.
		for _, tr := range []string{" // end of module", "//", "\n// a\n// b", " /* done */", " /* done */ // and more", "\n\n \t", " // x\n", "\r\n//\r"} {
			ins = append(ins, input{name, base + tr})
		}
		inc("fault:trailing-trivia")
	case 5: // an early statement fails its check in a long text
		i := strings.Index(base, "{")
		s := base
		if i >= 0 {
			bad := []string{" namespace \"urn:dup\"; namespace \"urn:dup2\";", " yang-version 7;", " prefix \"bad prefix\";", " revision notadate;", " leaf l { }", " nosuchkeyword x;", " import { }"}[t.Draw(7)]
			s = base[:i+1] + bad + base[i+1:]
		}
		ins = []input{{name, s}}
		inc("fault:early-check-failure")
	case 7: // argument sweep: every statement kind with an argument grammar of its own x every garbled argument
		texts, kws := baseRoot.ArgSweep(t, 8<<20)
		for _, s := range texts {
			ins = append(ins, input{name, s})
		}
		if len(ins) == 0 {
			ins = []input{{name, base}}
		}
		if st != nil {
			st.Add("fault:argument-garble-sweep", int64(len(texts)))
			st.Inc("argument_sweeps")
			for _, k := range kws {
				st.Inc("argument_sweep_keyword:" + k)
			}
		}
	case 6: // sequence sharing interners, an early member damaged
		shared = true
		sameName := t.Coin()
		n := 2 + t.Draw(3)
		for i := 0; i < n; i++ {
			s := base
			if i == 0 || t.Coin() {
				if baseRoot != nil && t.Coin() {
					// the same module with whole statements damaged (wrong order, header or revision statements
					// swapped or dropped, a bad argument): it fails in a statement CHECK, not in the lexer
					d := baseRoot
					for k := 1 + t.Draw(2); k > 0; k-- {
						d, _ = d.DamageStructure(t)
					}
					if t.Rare(3) && len(d.Kids) >= 2 {
						// header statements at the end / two top-level statements swapped
						i, j := t.Draw(len(d.Kids)), t.Draw(len(d.Kids))
						d = d.Clone()
						d.Kids[i], d.Kids[j] = d.Kids[j], d.Kids[i]
					}
					s = d.Text()
					inc("reach:interner_sequence_member_with_statement_damage")
				} else if len(s) > 0 {
					s = s[:t.Draw(len(s))]
				}
			}
			nm := fmt.Sprintf("sim%d.yang", i)
			if sameName {
				nm = name // every member of the sequence under ONE name: same name, different content
			}
			ins = append(ins, input{nm, s})
		}
		if len(ins) >= 2 && t.Coin() {
			// the sequence ends with the complete, undamaged text once more (after its damaged versions went through the same interners)
			ins = append(ins, input{ins[len(ins)-1].name, base})
		}
		inc("fault:shared-interner-sequence")
	}
	var outs []brief
	v := w.runInputs(ins, shared, withCard, st, &outs)
	// A hang or a leak seen by the free-running mode may depend on which goroutine the Go
	// scheduler happened to run first; then it does not replay. When the tree can be run in
	// schedule mode, the observation goes on the tape (Mark) and the same input is searched
	// under drawn interleavings: a witness found there is a pure function of the tape.
	// (big/deep texts are for the free-running mode only: their cost per byte under the scheduler is not bounded by a constant)
	if schedAvailable && !shared && kind != 4 {
		seen := 0
		if v != nil && (v.Class == "hang" || v.Class == "leak") && culprit >= 0 && culprit < len(ins) && len(ins[culprit].text) <= 8192 {
			seen = 1 + culprit
		}
		if seen = t.Mark(seen, len(ins)+1); seen > 0 {
			in := ins[seen-1]
			currentInput = in.text
			inc("pinning_attempts")
			for k := 0; k < 48; k++ {
				o, sv, _, _ := runScheduled(in, withCard, t)
				if sv == nil {
					sv = judge(in, o)
				}
				if sv != nil {
					sv.Detail = "(found free-running, pinned to a drawn schedule) " + sv.Detail
					inc("pinned_to_schedule")
					return sv
				}
			}
			if v == nil {
				return nil // (replay of a marked tape whose free-running phase saw nothing this time and whose schedules are clean)
			}
		}
	}
	// schedule mode: a sample of the same inputs under tape-drawn interleavings
	if v == nil && schedAvailable && !shared && kind != 4 && t.Draw(3) == 2 {
		n := 1 + t.Draw(6)
		for k := 0; k < n && v == nil; k++ {
			i := t.Draw(len(ins))
			if i >= len(outs) || len(ins[i].text) > 8192 {
				continue // (big texts are for the free-running mode: a schedule-mode parse costs ~10 us per byte)
			}
			currentInput = ins[i].text
			o, sv, steps, switches := runScheduled(ins[i], withCard, t)
			if st != nil {
				st.Inc("schedule_mode_parses")
				st.Add("scheduler_steps", int64(steps))
				st.Add("fault:schedule-switch", int64(switches))
				if switches > 0 {
					st.Seen("schedules", super.Hash(ins[i].text, fmt.Sprint(steps), fmt.Sprint(switches)))
				}
			}
			if super.Noting() {
				super.Note("sched", fmt.Sprint(o.err != nil), fmt.Sprint(o.panicked), fmt.Sprint(steps))
			}
			if sv != nil {
				v = sv
				break
			}
			if jv := judge(ins[i], o); jv != nil {
				jv.Detail = "(schedule mode) " + jv.Detail
				v = jv
				break
			}
			b := brief{o.err == nil, o.tree != nil && o.tree.Root != nil, o.panicked}
			if b != outs[i] {
				v = &super.Violation{Class: "schedule-dependent-outcome", Sig: "schedule-dependent-outcome",
					Detail: fmt.Sprintf("the same text gives a different outcome under a drawn interleaving of lexer and parser: free-running %+v, scheduled %+v (err=%v)\ninput %s: %q", outs[i], b, o.err, ins[i].name, clip(ins[i].text, 1200))}
			}
		}
	}
	if st != nil && v == nil {
		if len(ins) > 0 && len(ins) < 4 {
			st.Sample(map[string]any{"operator": []string{"none", "truncate-everywhere", "byte-damage", "token-op", "trailing-garbage", "early-check-failure", "shared-interner-sequence", "argument-sweep"}[op], "inputs": len(ins), "text": clip(ins[0].text, 400)})
		}
		super.Event("%016x %d", super.Hash(base), len(ins))
	}
	return v
}

func TestMain(m *testing.M) { os.Exit(m.Run()) }

func TestWorld(t *testing.T) {
	super.Main(world{t}, super.Config{
		QuickCases:       320,
		ThoroughSeconds:  900,
		CaseTimeout:      40e9,
		WatchdogTimeout:  10e9,
		MinimiseBudget:   400,
		Procs:            16,
		CrashIsViolation: true,
		HangIsViolation:  true,
		SelfArgs:         []string{"-test.run=^TestWorld$", "-test.timeout=0"},
	})
}
