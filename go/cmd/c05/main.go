// World C05: one machine talking to a data tree that fails.
//
// Real code: xpath lexers, the three generated parsers, ProgBuilder,
// context.Run, Result. Stubs: FaultTree behind xpath.Entry, a tiny XpathNode
// tree, PfxMapFn, UserCustomFunctionCheckerFn. Single goroutine: this property
// has no schedule in it, only inputs and fault sequences.
package main

import (
	"context"
	"encoding/xml"
	"fmt"
	"math"
	"regexp"
	"runtime"
	"strconv"
	"strings"

	"github.com/sdcio/yang-parser/xpath"
	"github.com/sdcio/yang-parser/xpath/grammars/expr"
	"github.com/sdcio/yang-parser/xpath/grammars/leafref"
	"github.com/sdcio/yang-parser/xpath/grammars/path_eval"
	"github.com/sdcio/yang-parser/xpath/xutils"

	"verif/faulttree"
	"verif/genxpath"
	"verif/super"
	"verif/tape"
)

type world struct{}

func (world) Property() string { return "C05" }
func (world) Level() string    { return "fault_enumeration" }

func (world) Describe() super.Description {
	return super.Description{
		Rule:        "A case = (expression string, simulated data tree, context node) drawn from one tape: 60% grammar-directed tree-aware expressions, 30% the same damaged by byte/token operators, 10% raw byte/token strings; for a quarter of the cases every prefix of the expression (the text ending at every byte) is offered to all five constructors as well. The string is offered to all five machine constructors (expr, expr+custom functions, path_eval, path_eval+custom+user checker, leafref) with nil / working / failing prefix-map callbacks. Every machine that builds is run fault-free against the FaultTree to learn N = number of data-tree callbacks, then once per k in 1..N with exactly the k-th callback failing (exhaustive single-fault enumeration for that case), then with tape-drawn multi-fault sets. distinct_nontrivial = distinct (expression, tree, context, fault position) tuples in which a machine was built, ran, made at least one data-tree callback and the injected fault actually fired.",
		DistinctSet: "faulted_runs",
		Assumptions: []string{
			"FaultTree never returns (nil, nil) or a nil Datum from a SUCCEEDING call",
			"a failing data-tree call returns a non-nil error; what it returns next to it varies: nil (most runs), a usable non-nil entry/value, or a typed nil pointer",
			"a data-tree error counts as 'carried' when Result.GetError() is non-nil and its text contains the unique sentinel of one of the errors the tree returned during that run",
			"quoting oracle: the build error text must contain the expression verbatim once and, elsewhere, two pieces p,q with p+q = expression separated by a short marker",
			"single-fault enumeration is exhaustive per sampled case; machines, trees and contexts are sampled",
			"Go 1.26.8 toolchain; leafref.go generated from leafref.y by vendored goyacc when /repo lacks it",
		},
		Components: map[string]any{
			"real": []string{"xpath (lexer, ProgBuilder, context.Run, Result, Datum)", "xpath/grammars/expr", "xpath/grammars/path_eval", "xpath/grammars/leafref (parser generated at check time)", "xpath/xutils"},
			"stub": []string{"faulttree (xpath.Entry)", "tiny XpathNode tree", "PfxMapFn", "UserCustomFunctionCheckerFn", "two registered custom functions"},
		},
		FaultKinds: []string{"truncate", "Navigate", "GetValue", "FollowLeafRef", "BreadthSearch", "mapFn-error", "natural-notfound", "natural-leafref", "ctx-cancelled"},
		Extra: map[string]any{
			"exhaustive_over":    "single-fault positions 1..N of every sampled (machine, tree, context)",
			"unreachable_at_pin": "BreadthSearch: no lexer emits COUNTFUNC, so the Count() instruction (the only BreadthSearch / goctx user) cannot be compiled from any input; count(...) compiles to the built-in function. Its fault kind therefore fires 0 times.",
		},
	}
}

// ---------------------------------------------------------------------------
// stubs

type xnode struct {
	name     string
	val      string
	parent   *xnode
	children []*xnode
	leaf     bool
}

func (n *xnode) XParent() xutils.XpathNode {
	if n.parent == nil {
		return nil
	}
	return n.parent
}
func (n *xnode) XChildren(f xutils.XFilter, s xutils.SortSpec) []xutils.XpathNode {
	out := []xutils.XpathNode{}
	for _, c := range n.children {
		out = append(out, c)
	}
	return out
}
func (n *xnode) XPath() xutils.PathType {
	if n.parent == nil {
		return xutils.PathType{"/"}
	}
	return append(n.parent.XPath(), n.name)
}
func (n *xnode) XRoot() xutils.XpathNode {
	r := n
	for r.parent != nil {
		r = r.parent
	}
	return r
}
func (n *xnode) XName() string                                 { return n.name }
func (n *xnode) XValue() string                                { return n.val }
func (n *xnode) XIsLeaf() bool                                 { return n.leaf }
func (n *xnode) XIsLeafList() bool                             { return false }
func (n *xnode) XIsNonPresCont() bool                          { return !n.leaf }
func (n *xnode) XIsEphemeral() bool                            { return false }
func (n *xnode) XListKeyMatches(key xml.Name, val string) bool { return false }
func (n *xnode) XListKeys() []xutils.NodeRefKey                { return nil }

func smallXTree() *xnode {
	root := &xnode{name: "root"}
	a := &xnode{name: "a", parent: root}
	b := &xnode{name: "b", parent: a, leaf: true, val: "1"}
	a.children = []*xnode{b}
	root.children = []*xnode{a}
	return b
}

func init() {
	xpath.RegisterCustomFunctions([]xpath.CustomFunctionInfo{
		{Name: "custom-fn", FnPtr: func(a []xpath.Datum) xpath.Datum {
			if a[0].Literal("custom-fn") == "a" {
				panic("custom-fn blew up")
			}
			return xpath.NewBoolDatum(true)
		}, Args: []xpath.DatumTypeChecker{xpath.TypeIsLiteral}, RetType: xpath.TypeIsBool, DefaultRetVal: xpath.NewBoolDatum(false)},
	})
}

func userChecker(name string) (*xpath.Symbol, bool) {
	if name == "user-fn" {
		return xpath.NewDummyFnSym(name), true
	}
	return nil, false
}

// ---------------------------------------------------------------------------

type grammar struct {
	name  string
	build func(s string, m xpath.PfxMapFn) (*xpath.Machine, error)
}

var grammars = []grammar{
	{"expr", func(s string, m xpath.PfxMapFn) (*xpath.Machine, error) { return expr.NewExprMachine(s, m) }},
	{"expr+custom", func(s string, m xpath.PfxMapFn) (*xpath.Machine, error) {
		return expr.NewExprMachineWithCustomFunctions(s, m)
	}},
	{"path_eval", func(s string, m xpath.PfxMapFn) (*xpath.Machine, error) {
		return path_eval.NewPathEvalMachine(s, m, "mod:1")
	}},
	{"path_eval+custom", func(s string, m xpath.PfxMapFn) (*xpath.Machine, error) {
		return path_eval.NewPathEvalMachineWithCustomFns(s, m, "mod:1", userChecker)
	}},
	{"leafref", func(s string, m xpath.PfxMapFn) (*xpath.Machine, error) { return leafref.NewLeafrefMachine(s, m) }},
}

// libFrame returns the innermost library frame of the current panic stack.
func libFrame() string {
	var pcs [64]uintptr
	n := runtime.Callers(2, pcs[:])
	fr := runtime.CallersFrames(pcs[:n])
	for {
		f, more := fr.Next()
		if strings.HasPrefix(f.Function, "github.com/sdcio/yang-parser/") && !strings.HasSuffix(f.Function, ".recover") {
			// a library function named recover only re-raises; the frames of the original panic are still below it
			return strings.TrimPrefix(f.Function, "github.com/sdcio/yang-parser/")
		}
		if !more {
			return "?"
		}
	}
}

type buildOut struct {
	m        *xpath.Machine
	err      error
	panicked bool
	pval     string
	pframe   string
}

func safeBuild(g grammar, s string, m xpath.PfxMapFn) (o buildOut) {
	defer func() {
		if r := recover(); r != nil {
			o.panicked = true
			o.pval = fmt.Sprint(r)
			o.pframe = libFrame()
		}
	}()
	o.m, o.err = g.build(s, m)
	return
}

// quoted reports whether msg quotes s and marks a position inside it: msg must
// contain s verbatim and, elsewhere, two pieces p,q with p+q == s separated by
// a marker of 1..16 bytes (p or q may be empty).
func quoted(msg, s string) (bool, string) {
	i := strings.Index(msg, s)
	if i < 0 {
		return false, "error text does not contain the expression"
	}
	rest := msg[:i] + "\x00" + msg[i+len(s):]
	// p or q empty: the whole expression appears a second time next to a marker
	if j := strings.Index(rest, s); j >= 0 && len(rest) > len(s) {
		return true, ""
	}
	for cut := 1; cut < len(s); cut++ {
		p, q := s[:cut], s[cut:]
		for from := 0; from <= len(rest); {
			j := strings.Index(rest[from:], p)
			if j < 0 {
				break
			}
			j += from
			after := rest[j+len(p):]
			lim := len(after)
			if lim > 16+len(q) {
				lim = 16 + len(q)
			}
			if k := strings.Index(after[:lim], q); k >= 1 {
				return true, ""
			}
			from = j + 1
		}
	}
	// other ways of marking a position that a reworded message might use: a number in range after a
	// position word ("at offset 7", "column 3", "pos=12"), or a caret under a copy of the expression
	if m := posWord.FindAllStringSubmatch(rest, -1); m != nil {
		for _, g := range m {
			if n, err := strconv.Atoi(g[2]); err == nil && n >= 0 && n <= len(s)+1 {
				return true, ""
			}
		}
	}
	for _, line := range strings.Split(rest, "\n") {
		if t := strings.TrimLeft(line, " \t-~"); strings.HasPrefix(t, "^") && len(line)-len(t) <= len(s)+16 && strings.Trim(t, "^~ ") == "" {
			return true, ""
		}
	}
	return false, "error text has no position marker (neither the expression split in two around a marker, nor a position word followed by a number inside the expression, nor a caret line)"
}

var posWord = regexp.MustCompile(`(?i)\b(position|pos|offset|column|col|char|character|index|byte)s?\b[ :=#]{0,3}(\d{1,9})`)

type runOut struct {
	panicked bool
	pval     string
	pframe   string
	nilRes   bool
	err      error
	hasVal   bool
	val      string
	accPanic string
}

func (r runOut) outcome() string {
	if r.panicked {
		return "PANIC " + r.pval
	}
	if r.err != nil {
		return "ERR " + r.err.Error()
	}
	return "VAL " + r.val
}

func fnum(f float64) string {
	if math.IsNaN(f) {
		return "NaN"
	}
	return fmt.Sprintf("%v", f)
}

func readResult(res *xpath.Result) (hasVal bool, val string, accPanic string) {
	acc := func(name string, f func() (string, error)) {
		defer func() {
			if r := recover(); r != nil {
				accPanic += name + ": " + fmt.Sprint(r) + "; "
			}
		}()
		v, err := f()
		if err == nil {
			hasVal = true
			val += name + "=" + v + " "
		}
	}
	acc("bool", func() (string, error) { b, e := res.GetBoolResult(); return fmt.Sprint(b), e })
	acc("num", func() (string, error) { n, e := res.GetNumResult(); return fnum(n), e })
	acc("lit", func() (string, error) { l, e := res.GetLiteralResult(); return fmt.Sprintf("%q", l), e })
	return
}

type ctxKind int

const (
	ctxEntry ctxKind = iota
	ctxEntryValidate
	ctxXNode
	ctxEntryDebug
	ctxEntryTwice // the same context object is run twice
)

func safeRun(m *xpath.Machine, ck ctxKind, cur *faulttree.Node, goctx context.Context) (o runOut) {
	defer func() {
		if r := recover(); r != nil {
			o.panicked = true
			o.pval = fmt.Sprint(r)
			o.pframe = libFrame()
		}
	}()
	var res *xpath.Result
	switch ck {
	case ctxEntry:
		res = xpath.NewCtxFromCurrent(goctx, m, cur.Entry(nil)).Run()
	case ctxEntryValidate:
		res = xpath.NewCtxFromCurrent(goctx, m, cur.Entry(nil)).EnableValidation().Run()
	case ctxXNode:
		res = xpath.NewCtxFromMach(m, smallXTree()).Run()
	case ctxEntryTwice:
		c := xpath.NewCtxFromCurrent(goctx, m, cur.Entry(nil))
		_ = c.Run()
		res = c.Run()
	case ctxEntryDebug:
		res = xpath.NewCtxFromCurrent(goctx, m, cur.Entry(nil)).SetDebug(true).Run()
		if res != nil {
			_ = res.GetDebugOutput()
			_ = res.PrintResult()
		}
	}
	if res == nil {
		o.nilRes = true
		return
	}
	o.err = res.GetError()
	o.hasVal, o.val, o.accPanic = readResult(res)
	// stable re-read
	if hv, v, _ := readResult(res); hv != o.hasVal || v != o.val {
		o.accPanic += "unstable re-read; "
	}
	return
}

func clip(s string, n int) string {
	if len(s) > n {
		return s[:n] + "..."
	}
	return s
}

func (world) RunCase(t *tape.Tape, st *super.Stats) *super.Violation {
	inc := func(k string) {
		if st != nil {
			st.Inc(k)
		}
	}
	tree := faulttree.Generate(t, "T")
	cur := tree.Nodes[t.Draw(len(tree.Nodes))]
	g := &genxpath.Gen{T: t, Tree: tree, Ctx: cur}
	var s string
	kind := t.Pick(6, 3, 1, 1)
	switch kind {
	case 0:
		s = g.Expr(t.Draw(4))
	case 1:
		s = g.Damage(g.Expr(t.Draw(3)))
	case 2:
		s = g.Raw()
	case 3:
		s = g.Leafref()
		if t.Rare(3) {
			s = g.Damage(s)
		}
	}
	inc([]string{"input:generated", "input:damaged", "input:raw", "input:leafref"}[kind])
	caseDesc := func() string {
		return fmt.Sprintf("expression: %q\ncontext node: %s\ntree:\n%s", s, cur, tree.Describe())
	}

	// prefix map callback variants
	mapCalls := 0
	failAt := 0
	mapMode := t.Pick(3, 3, 1)
	if mapMode == 2 {
		failAt = 1 + t.Draw(3)
	}
	var mapFn xpath.PfxMapFn
	if mapMode > 0 {
		mapFn = func(pfx string) (string, error) {
			mapCalls++
			if failAt > 0 && mapCalls == failAt {
				inc("fault:mapFn-error")
				// error texts a caller might really produce: with a format verb, with the marker, with the expression itself
				return "", fmt.Errorf("%s", []string{"SIMFAULT-mapFn", "no module for prefix %s (100%)", "bad prefix [X] here", "cannot map in '" + s + "'"}[mapCalls%4])
			}
			return "urn:" + pfx, nil
		}
	}

	// every way the expression can END: all prefixes through all constructors (build oracle only)
	if t.Rare(4) && len(s) <= 200 {
		inc("prefix_sweeps")
		for cut := 0; cut < len(s); cut++ {
			ps := s[:cut]
			for _, gr := range grammars {
				o := safeBuild(gr, ps, nil)
				inc("build:calls")
				inc("fault:truncate")
				if o.panicked {
					return &super.Violation{Class: "panic-escaped", Sig: "panic-escaped|build|" + o.pframe,
						Detail: fmt.Sprintf("building a %s machine panicked: %s\nexpression (prefix of %q): %q", gr.name, clip(o.pval, 300), s, ps)}
				}
				if (o.m == nil) == (o.err == nil) {
					return &super.Violation{Class: "both-or-neither", Sig: "both-or-neither|build|" + gr.name,
						Detail: fmt.Sprintf("%s constructor returned machine=%v err=%v\nexpression: %q", gr.name, o.m != nil, o.err, ps)}
				}
				if o.err != nil && len(ps) > 0 {
					if ok, why := quoted(o.err.Error(), ps); !ok {
						return &super.Violation{Class: "error-not-quoting", Sig: "error-not-quoting|build|" + gr.name,
							Detail: fmt.Sprintf("%s: %s\nerror text: %q\nexpression: %q", gr.name, why, o.err.Error(), ps)}
					}
				}
			}
		}
	}

	var built []struct {
		g grammar
		m *xpath.Machine
	}
	for _, gr := range grammars {
		mapCalls = 0
		o := safeBuild(gr, s, mapFn)
		inc("build:calls")
		if super.Noting() {
			super.Note(gr.name, fmt.Sprint(o.m != nil), fmt.Sprint(o.err), o.pval)
		}
		if o.panicked {
			return &super.Violation{Class: "panic-escaped", Sig: "panic-escaped|build|" + o.pframe,
				Detail: fmt.Sprintf("building a %s machine panicked: %s\n%s", gr.name, clip(o.pval, 300), caseDesc())}
		}
		if (o.m == nil) == (o.err == nil) {
			return &super.Violation{Class: "both-or-neither", Sig: "both-or-neither|build|" + gr.name,
				Detail: fmt.Sprintf("%s constructor returned machine=%v err=%v\n%s", gr.name, o.m != nil, o.err, caseDesc())}
		}
		if o.err != nil {
			inc("build:errors")
			if len(s) > 0 {
				if ok, why := quoted(o.err.Error(), s); !ok {
					return &super.Violation{Class: "error-not-quoting", Sig: "error-not-quoting|build|" + gr.name,
						Detail: fmt.Sprintf("%s: %s\nerror text: %q\n%s", gr.name, why, o.err.Error(), caseDesc())}
				}
				inc("build:errors_quote_checked")
			}
			continue
		}
		inc("build:machines")
		built = append(built, struct {
			g grammar
			m *xpath.Machine
		}{gr, o.m})
	}
	if st != nil {
		st.Seen("inputs", super.Hash(s))
		if g.UsedDeref {
			st.Inc("reach:expr_with_deref")
		}
		if g.UsedPred {
			st.Inc("reach:expr_with_predicate")
		}
		if g.UsedCurrent {
			st.Inc("reach:expr_with_current")
		}
		if g.UsedText {
			st.Inc("reach:expr_with_text")
		}
	}

	treeKey := tree.Describe()
	sampleCalls, sampleTrace := 0, ""
	for bi, b := range built {
		// path_eval machines ignore the Entry; run them on the XpathNode context only.
		kinds := []ctxKind{ctxEntry}
		if strings.HasPrefix(b.g.name, "path_eval") {
			kinds = []ctxKind{ctxXNode, ctxEntry}
		} else if bi == 0 && t.Rare(8) {
			kinds = []ctxKind{ctxEntryValidate}
		} else if t.Rare(10) {
			kinds = []ctxKind{ctxEntryDebug}
			inc("reach:debug_mode_runs")
		} else if t.Rare(16) {
			kinds = append(kinds, ctxXNode)
		} else if t.Rare(24) {
			kinds = []ctxKind{ctxEntryTwice}
		}
		for _, ck := range kinds {
			tree.Reset()
			base := safeRun(b.m, ck, cur, context.Background())
			inc("run:fault_free")
			n := len(tree.Calls)
			if st != nil {
				st.Add("callback_steps", int64(n))
				st.Max("max:callbacks_in_one_run", int64(n))
			}
			if ck == ctxEntryTwice {
				// a context is a one-shot object (its Result is created with it); running it twice is
				// outside the property's "the result carries that error" — only totality is asserted
				inc("reach:context_run_twice")
				if base.panicked {
					return &super.Violation{Class: "panic-escaped", Sig: "panic-escaped|run|" + base.pframe,
						Detail: fmt.Sprintf("second Run() of one context panicked: %s\n%s", clip(base.pval, 300), caseDesc())}
				}
				if !base.nilRes && base.err == nil && !base.hasVal {
					return &super.Violation{Class: "neither", Sig: "neither|no-error-no-value|" + b.g.name, Detail: "second Run() of one context\n" + caseDesc()}
				}
				intactOrRestore(tree, st)
				continue
			}
			if v := judgeRun(b.g.name, base, tree, caseDesc, "fault-free"); v != nil {
				return v
			}
			if !intactOrRestore(tree, st) {
				inc("observed:tree_owned_path_mutated(C06 business)")
			}
			if n == 0 {
				continue
			}
			if n >= 4 {
				inc("reach:machines_with_4plus_callbacks")
			}
			baseTrace := tree.Trace()
			if n > sampleCalls {
				sampleCalls, sampleTrace = n, baseTrace
			}
			natural := len(tree.Errors)
			if natural > 0 {
				for _, e := range tree.Errors {
					if strings.Contains(e.Sentinel, "notfound") || strings.Contains(e.Sentinel, "aboveroot") {
						inc("fault:natural-notfound")
					} else {
						inc("fault:natural-leafref")
					}
				}
			}
			// exhaustive single-fault enumeration
			errShape := 0
			if t.Rare(4) {
				errShape = 1 + t.Draw(2) // the failing call also hands back a usable result / a typed nil pointer
				inc("reach:tree_error_with_non_nil_result")
			}
			errText := 0
			if t.Rare(6) {
				errText = 1 + t.Draw(3) // a tree whose errors have an empty / blank / newline-terminated text
				inc("reach:tree_error_with_unusual_text")
			}
			errType := 0
			if t.Rare(4) {
				errType = 1 + t.Draw(3) // the tree's error is a struct value with a slice field / a slice / wrapped: not a pointer, maybe not comparable
				inc("reach:tree_error_of_unusual_dynamic_type")
			}
			for k := 1; k <= n; k++ {
				tree.Reset()
				tree.FailAt = map[int]bool{k: true}
				tree.ErrText = errText
				tree.ErrShape = errShape
				tree.ErrType = errType
				fo := safeRun(b.m, ck, cur, context.Background())
				inc("run:single_fault")
				fired := false
				for _, c := range tree.Calls {
					if c.Inj {
						fired = true
						inc("fault:" + c.Method)
						switch {
						case strings.Contains(c.Site, "Deref"):
							inc("reach:fault_inside_deref")
						}
						if k == 1 {
							inc("reach:fault_at_first_callback")
						}
						if k == n {
							inc("reach:fault_at_last_callback")
						}
					}
				}
				if st != nil {
					st.Add("callback_steps", int64(len(tree.Calls)))
				}
				if !fired {
					// an earlier natural error changed the course; cannot happen for k<=n on a deterministic machine
					inc("observed:planned_fault_not_reached")
					continue
				}
				if st != nil {
					st.Seen("faulted_runs", super.Hash(s, treeKey, cur.String(), b.g.name, fmt.Sprint(ck), fmt.Sprint(k)))
					st.Seen("fault_sites", super.Hash(faultSite(tree)))
				}
				if v := judgeRun(b.g.name, fo, tree, caseDesc, fmt.Sprintf("callback %d of %d failing", k, n)); v != nil {
					return v
				}
				intactOrRestore(tree, st)
			}
			// the caller's Go context: cancelled before the run, or cancelled while callback k is in progress
			// (the callback itself succeeds). Whatever the library makes of it, the run must still end
			// with a value or an error.
			if t.Rare(3) {
				for _, k := range []int{0, 1 + t.Draw(n)} {
					tree.Reset()
					gctx, cancel := context.WithCancel(context.Background())
					if k == 0 {
						cancel()
					} else {
						tree.CancelAt, tree.Cancel = k, cancel
					}
					co := safeRun(b.m, ck, cur, gctx)
					cancel()
					inc("fault:ctx-cancelled")
					if v := judgeRun(b.g.name, co, tree, caseDesc, fmt.Sprintf("Go context cancelled (at callback %d; 0 = before the run)", k)); v != nil {
						return v
					}
					intactOrRestore(tree, st)
				}
			}
			// multi-fault runs driven by the tape
			for r := t.Draw(3); r > 0; r-- {
				tree.Reset()
				tree.FailProb = []int{50, 200, 500}[t.Draw(3)]
				tree.FaultTape = t
				fo := safeRun(b.m, ck, cur, context.Background())
				inc("run:multi_fault")
				nf := 0
				for _, c := range tree.Calls {
					if c.Inj {
						nf++
						inc("fault:" + c.Method)
					}
				}
				if nf >= 2 {
					inc("reach:two_or_more_faults_in_one_run")
				}
				if v := judgeRun(b.g.name, fo, tree, caseDesc, fmt.Sprintf("multi-fault run (p=%d/1000, %d fired)", tree.FailProb, nf)); v != nil {
					return v
				}
				intactOrRestore(tree, st)
			}
			// the machine must still be usable: same fault-free behaviour (history is C06's business; only counted here)
			tree.Reset()
			again := safeRun(b.m, ck, cur, context.Background())
			if again.outcome() != base.outcome() || tree.Trace() != baseTrace {
				inc("observed:fault_free_rerun_differs(C06 business)")
			}
			intactOrRestore(tree, st)
		}
	}
	if st != nil {
		if len(built) > 0 && sampleCalls >= 2 {
			st.Sample(map[string]any{"expression": s, "context": cur.String(), "machines_built": len(built), "callbacks_fault_free": sampleCalls,
				"single_fault_runs": sampleCalls, "fault_free_trace": strings.Split(strings.TrimSpace(sampleTrace), "\n"), "tree": strings.Split(strings.TrimSpace(tree.Describe()), "\n")})
		}
		super.Event("%016x", super.Hash(s, treeKey, fmt.Sprint(len(built))))
	}
	return nil
}

func intactOrRestore(tree *faulttree.Tree, st *super.Stats) bool {
	if ok, _ := tree.PathsIntact(); !ok {
		tree.RestorePaths()
		return false
	}
	return true
}

func faultSite(tree *faulttree.Tree) string {
	for _, c := range tree.Calls {
		if c.Failed {
			return c.Method + "<-" + c.Site
		}
	}
	return "none"
}

// judgeRun applies the run oracle.
func judgeRun(gname string, o runOut, tree *faulttree.Tree, caseDesc func() string, what string) *super.Violation {
	if super.Noting() {
		super.Note(gname, what, o.outcome(), tree.Trace())
	}
	desc := func() string {
		return fmt.Sprintf("%s machine, %s\noutcome: %s\nrequest trace:\n%s%s", gname, what, clip(o.outcome(), 400), tree.Trace(), caseDesc())
	}
	if o.panicked {
		return &super.Violation{Class: "panic-escaped", Sig: "panic-escaped|run|" + o.pframe, Detail: desc()}
	}
	if o.nilRes {
		return &super.Violation{Class: "neither", Sig: "neither|nil-result|" + gname, Detail: desc()}
	}
	if o.accPanic != "" {
		return &super.Violation{Class: "panic-escaped", Sig: "panic-escaped|result-accessor", Detail: o.accPanic + "\n" + desc()}
	}
	if o.err == nil && !o.hasVal {
		return &super.Violation{Class: "neither", Sig: "neither|no-error-no-value|" + gname, Detail: desc()}
	}
	if len(tree.Errors) > 0 {
		site := faultSite(tree)
		if o.err == nil || o.hasVal {
			return &super.Violation{Class: "fabricated-value", Sig: "fabricated-value|" + site, Detail: "the data tree reported an error but the run produced a value\n" + desc()}
		}
		msg := o.err.Error()
		carried := false
		for _, e := range tree.Errors {
			if e.Blank {
				// an error without text cannot be recognised in a message; being an error (and no value) is all that can be asked
				carried = true
				break
			}
			if strings.Contains(msg, strings.TrimSpace(e.Sentinel)) {
				carried = true
				break
			}
		}
		if !carried {
			return &super.Violation{Class: "error-replaced", Sig: "error-replaced|" + site, Detail: "the data tree reported an error but the run's error is an unrelated one\n" + desc()}
		}
	}
	return nil
}

func main() {
	super.Main(world{}, super.Config{
		QuickCases:       30000,
		ThoroughSeconds:  900,
		CaseTimeout:      20e9,
		MinimiseBudget:   1500,
		Procs:            16,
		CrashIsViolation: true,
		HangIsViolation:  true,
	})
}
