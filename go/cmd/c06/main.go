// World C06: W client goroutines sharing one process-wide function table, a
// set of published machines and one data tree, interleaved by the baton
// scheduler over the R2/R3-instrumented library, built with -race.
//
// Real code: everything under xpath/ (mechanically instrumented: yield points
// and lock wrappers). Stubs: FaultTree (one immutable tree, one Run per
// client), PfxMapFn, UserCustomFunctionCheckerFn.
package main

import (
	"context"
	"encoding/json"
	"fmt"
	"os"
	"os/exec"
	"path/filepath"
	"runtime"
	"sort"
	"strconv"
	"strings"
	"sync"
	"time"

	"github.com/sdcio/yang-parser/xpath"
	"github.com/sdcio/yang-parser/xpath/grammars/expr"
	"github.com/sdcio/yang-parser/xpath/grammars/leafref"
	"github.com/sdcio/yang-parser/xpath/grammars/path_eval"
	simrt "github.com/sdcio/yang-parser/zz_verifsimrt"

	"verif/faulttree"
	"verif/genxpath"
	"verif/sched"
	"verif/super"
	"verif/tape"
)

type world struct{}

func (world) Property() string { return "C06" }
func (world) Level() string    { return "exploration" }

func (world) Describe() super.Description {
	d := super.Description{
		Rule:        "A case = one simulated data tree, 1..3 machines compiled before the clients start, and 2..5 client goroutines each with a tape-drawn program of 3..9 operations (Compile with one of five constructors and a nil/working/yielding prefix-map or user-function checker; Run of a shared or own machine on a drawn context node with or without an injected data-tree fault; repeated runs of one machine). The clients are interleaved by the baton scheduler at instrumented yield points (function entries and loop heads in xpath/*, lock acquire/release, every data-tree and caller callback); strategy (uniform / sticky / round-robin quantum / priority with change points) and yield-site density are drawn per case. The first case of every worker process has the process's first function-table lookup inside the concurrent phase. Afterwards every operation is re-executed in isolation (fresh compile, fresh tree copy, single goroutine) and must give the same outcome (result, error text, request trace, machine listing); shared machines and tree-owned objects must be unchanged; the race detector's log must be empty. distinct_nontrivial = distinct schedules (hash of the (client, switch kind, site) sequence) with at least two clients and at least one switch between two different clients.",
		DistinctSet: "schedules",
		Assumptions: []string{
			"baton hand-off uses raw SYS_READ/SYS_WRITE on pipes and all scheduler state is touched only in //go:norace functions, so the race detector's happens-before relation contains the library's own synchronisation only (plus goroutine start and the final join)",
			"sync.Pool.Put discards in this build (-overlay of sync/pool.go; allowed by Pool's contract): under -race the stock Put drops items at random and Put/Get are release/acquire-annotated, which randomises reports and hides races between clients that merely share fmt's buffer pool",
			"a race report counts only if one of its two access stacks has a frame in github.com/sdcio/yang-parser; a report without one is harness trouble (exit 2), never a violation",
			"isolation oracle = same operation on a fresh compile and a fresh copy of the tree in a single goroutine after the concurrent phase; registration of custom functions and EnableValidation() (documented unit-test switch writing an unsynchronised map) are outside the property",
			"/lib/xpath/plugins must not exist (plugin loading is real file-system access that is not simulated)",
		},
		Components: map[string]any{
			"real": []string{"xpath", "xpath/xutils", "xpath/grammars/expr", "xpath/grammars/path_eval", "xpath/grammars/leafref — all instrumented by simrewrite R2 (yields) and R3 (locks)"},
			"stub": []string{"faulttree (xpath.Entry; immutable tree + per-client Run)", "PfxMapFn", "UserCustomFunctionCheckerFn", "baton scheduler"},
		},
		FaultKinds: []string{"schedule-switch", "lock-contention", "Navigate", "GetValue", "FollowLeafRef", "mapFn-error", "first-lookup-in-concurrent-phase", "garbage-collection-with-finalizers"},
		Extra:      map[string]any{},
	}
	if b, err := os.ReadFile(os.Getenv("VERIF_REWRITE_LOG")); err == nil {
		n2, n3 := 0, 0
		for _, l := range strings.Split(string(b), "\n") {
			if strings.HasPrefix(l, "SITE R2") {
				n2++
			}
			if strings.HasPrefix(l, "SITE R3") {
				n3++
			}
		}
		d.Extra["instrumented_yield_sites"] = n2
		d.Extra["instrumented_lock_sites"] = n3
	}
	return d
}

// ---------------------------------------------------------------------------

type grammar struct {
	name  string
	build func(s string, m xpath.PfxMapFn) (*xpath.Machine, error)
}

func userChecker(name string) (*xpath.Symbol, bool) {
	sched.Always("cb:userFnChecker") // runs while the function-table lock is held
	if name == "user-fn" {
		return xpath.NewDummyFnSym(name), true
	}
	return nil, false
}

var grammars = []grammar{
	{"expr", func(s string, m xpath.PfxMapFn) (*xpath.Machine, error) { return expr.NewExprMachine(s, m) }},
	{"expr+custom", func(s string, m xpath.PfxMapFn) (*xpath.Machine, error) {
		return expr.NewExprMachineWithCustomFunctions(s, m)
	}},
	{"path_eval", func(s string, m xpath.PfxMapFn) (*xpath.Machine, error) {
		return path_eval.NewPathEvalMachine(s, m, "mod:1")
	}},
	{"path_eval+custom", func(s string, m xpath.PfxMapFn) (*xpath.Machine, error) {
		return path_eval.NewPathEvalMachineWithCustomFns(s, m, "mod:1", userChecker)
	}},
	{"leafref", func(s string, m xpath.PfxMapFn) (*xpath.Machine, error) { return leafref.NewLeafrefMachine(s, m) }},
}

type op struct {
	kind    int  // 0 compile, 1 run shared, 2 run own (last compiled by this client), 3 compile and run a machine that nobody keeps
	debug   bool // run with SetDebug(true)
	legacy  bool // run through NewCtxFromMach (the XpathNode entry point, nil context node) instead of NewCtxFromCurrent; derived from draws already made, so the tape is unchanged (f21b)
	gcAt    int  // >0: at the run's gcAt-th data-tree callback the client forces a garbage collection and lets the finalizers run
	gram    int
	expr    string
	mapMode int // 0 nil, 1 ok, 2 fails at 2nd call, 3 ok but binds the prefixes to other namespaces
	shared  int
	ctx     int
	failAt  int
}

type outcome struct {
	text  string // result or listing or error
	trace string
	inj   []string // injected faults that fired (method names)
}

func (o outcome) String() string { return o.text + "\n" + o.trace }

func mkMapFn(mode int) xpath.PfxMapFn {
	if mode == 0 {
		return nil
	}
	calls := 0
	return func(pfx string) (string, error) {
		sched.Always("cb:mapFn")
		calls++
		if mode == 2 && calls == 2 {
			return "", fmt.Errorf("SIMFAULT-mapFn-2")
		}
		if mode == 3 {
			return "urn:other:" + pfx, nil // the same prefixes, bound to other namespaces
		}
		return "urn:" + pfx, nil
	}
}

// debugExprs (VERIF_C06_DEBUG=1) lists every expression handed to a constructor, for measuring what the generator reaches.
var debugExprs = os.Getenv("VERIF_C06_DEBUG") != ""

func compileOp(o op) (m *xpath.Machine, out outcome) {
	defer func() {
		if r := recover(); r != nil {
			out.text = fmt.Sprintf("PANIC %v", r)
		}
	}()
	if debugExprs {
		fmt.Fprintf(os.Stderr, "EXPR %s %q\n", grammars[o.gram].name, o.expr)
	}
	m, err := grammars[o.gram].build(o.expr, mkMapFn(o.mapMode))
	if err != nil {
		return nil, outcome{text: "ERR " + err.Error()}
	}
	return m, outcome{text: "MACHINE\n" + m.PrintMachine()}
}

// isolateChild: this process was started by freshProcess to do one operation of a case.
var isolateChild = os.Getenv("VERIF_C06_ISOLATE") != ""

// freshProcess re-creates the case from the generation part of its tape in a new process of this
// binary and has it do operation (c,i) alone: fresh compile, fresh tree, nothing before it.
func freshProcess(genTape []uint32, c, i int) (string, bool) {
	dir := os.Getenv("VERIF_WORKDIR")
	if dir == "" {
		dir = os.TempDir()
	}
	tf := filepath.Join(dir, fmt.Sprintf("iso-%d.json", os.Getpid()))
	b, _ := json.Marshal(genTape)
	if err := os.WriteFile(tf, b, 0o644); err != nil {
		return err.Error(), false
	}
	defer os.Remove(tf)
	of := tf + ".out"
	defer os.Remove(of)
	cmd := exec.Command(os.Args[0], "-mode=one", "-file="+tf)
	cmd.Env = append(os.Environ(), fmt.Sprintf("VERIF_C06_ISOLATE=%d:%d", c, i), "VERIF_C06_ISOLATE_OUT="+of, "GORACE=log_path="+filepath.Join(dir, "isochild")+" exitcode=0 atexit_sleep_ms=0")
	done := make(chan struct{})
	var out []byte
	var err error
	go func() { _, err = cmd.Output(); out, _ = os.ReadFile(of); close(done) }()
	select {
	case <-done:
	case <-time.After(30 * time.Second):
		if cmd.Process != nil {
			cmd.Process.Kill()
		}
		<-done
		return "timed out", false
	}
	for _, l := range strings.Split(string(out), "\n") {
		if strings.HasPrefix(l, "ISOLATED ") {
			if s, e := strconv.Unquote(strings.TrimPrefix(l, "ISOLATED ")); e == nil {
				return s, true
			}
		}
	}
	return fmt.Sprintf("no answer (err=%v): %s", err, clip(string(out), 300)), false
}

// forceGC is the "garbage collection now" fault: a full collection, then every finalizer that the
// collection made runnable is given time to finish (a sentinel object allocated after the first
// collection is finalised after them: the runtime runs finalizers in queue order on one goroutine).
// Which objects are unreachable at this point is a function of the program state, which the
// schedule determines; the only real-time element is the bound on the wait.
var gcForced, gcWaitTimedOut int

func forceGC() {
	runtime.GC()
	done := make(chan struct{})
	s := new([128]byte)
	runtime.SetFinalizer(s, func(*[128]byte) { close(done) })
	s = nil
	runtime.GC()
	select {
	case <-done:
		gcCount(false)
	case <-time.After(2 * time.Second):
		gcCount(true) // a finalizer is stuck behind a lock that a parked client holds: it will run later, at a time the tape does not decide
	}
}

// (harness counters touched by whichever client holds the baton: invisible to the race detector on
// purpose — an atomic here would be a synchronisation edge between clients that the library does not have)
//
//go:norace
func gcCount(timedOut bool) {
	gcForced++
	if timedOut {
		gcWaitTimedOut++
	}
}

// runTemp compiles an expression and runs the machine without keeping any reference to it: from the
// moment the context exists, the machine is garbage.
func runTemp(o op, tree *faulttree.Tree, tag string, yield bool) outcome {
	m, oc := compileOp(op{gram: 0, expr: o.expr})
	if m == nil {
		return outcome{text: "NO-MACHINE " + oc.text}
	}
	return runOp(m, tree, o, tag, yield)
}

func runOp(m *xpath.Machine, tree *faulttree.Tree, o op, tag string, yield bool) (out outcome) {
	r := tree.NewRun(tag)
	r.NoSites = true
	if o.failAt > 0 {
		r.FailAt = map[int]bool{o.failAt: true}
	}
	if yield {
		ncb := 0
		r.Yield = func(method string) {
			if ncb++; ncb == o.gcAt {
				forceGC()
			}
			sched.Always("cb:" + method)
		}
	}
	defer func() {
		if p := recover(); p != nil {
			out.text = fmt.Sprintf("PANIC %v", p)
		}
		out.trace = r.Trace()
		for _, c := range r.Calls {
			if c.Inj {
				out.inj = append(out.inj, c.Method)
			}
		}
	}()
	if m == nil {
		return outcome{text: "NO-MACHINE"}
	}
	cur := tree.Nodes[o.ctx%len(tree.Nodes)]
	var res *xpath.Result
	if o.legacy {
		// the other way into a machine: a context made by NewCtxFromMach. Anything it does with a nil node (a panic included) is
		// the same in isolation, so the comparison stands; what matters is that two runs of one machine share nothing.
		res = xpath.NewCtxFromMach(m, nil).Run()
	} else if o.debug {
		// a run with the debug trace switched on (the trace itself is not compared; result, error and request trace are)
		res = xpath.NewCtxFromCurrent(context.Background(), m, cur.Entry(r)).SetDebug(true).Run()
		if res != nil {
			_ = res.GetDebugOutput()
		}
	} else {
		res = xpath.NewCtxFromCurrent(context.Background(), m, cur.Entry(r)).Run()
	}
	if res == nil {
		return outcome{text: "NIL-RESULT"}
	}
	if err := res.GetError(); err != nil {
		return outcome{text: "ERR " + err.Error()}
	}
	var b strings.Builder
	if v, e := res.GetBoolResult(); e == nil {
		fmt.Fprintf(&b, "bool=%v ", v)
	}
	if v, e := res.GetNumResult(); e == nil {
		if v != v {
			b.WriteString("num=NaN ")
		} else {
			fmt.Fprintf(&b, "num=%v ", v)
		}
	}
	if v, e := res.GetLiteralResult(); e == nil {
		fmt.Fprintf(&b, "lit=%q", v)
	}
	return outcome{text: "VAL " + b.String()}
}

var caseInProcess = 0
var raceOff int64

// readRaces returns the race reports written since the last call.
func readRaces() []string {
	dir := os.Getenv("VERIF_WORKDIR")
	if dir == "" {
		return nil
	}
	b, err := os.ReadFile(fmt.Sprintf("%s/race.%d", dir, os.Getpid()))
	if err != nil || int64(len(b)) <= raceOff {
		return nil
	}
	s := string(b[raceOff:])
	raceOff = int64(len(b))
	var out []string
	for _, blk := range strings.Split(s, "==================") {
		if strings.Contains(blk, "DATA RACE") {
			out = append(out, blk)
		}
	}
	return out
}

// raceSig extracts the first library frame of each of the two access stacks.
func raceSig(report string) (sig string, lib bool) {
	var frames []string
	lines := strings.Split(report, "\n")
	for i := 0; i < len(lines); i++ {
		l := strings.TrimSpace(lines[i])
		isAccess := strings.Contains(l, " at 0x") && strings.Contains(l, " by ") &&
			(strings.HasPrefix(l, "Read") || strings.HasPrefix(l, "Write") || strings.HasPrefix(l, "Previous") || strings.HasPrefix(l, "Atomic"))
		if !isAccess {
			continue
		}
		f := "?"
		for j := i + 1; j < len(lines); j++ {
			x := strings.TrimSpace(lines[j])
			if x == "" {
				break
			}
			if strings.HasPrefix(x, "verif/") || strings.HasPrefix(x, "main.") {
				// the access itself happened in harness code (reached before any library frame,
				// walking down from the access): a harness race, not the library's
				f = "harness:" + x
				if k := strings.LastIndex(f, "("); k > 0 {
					f = f[:k]
				}
				break
			}
			if strings.HasPrefix(x, "github.com/sdcio/yang-parser/") && !strings.Contains(x, "zz_verifsimrt") {
				f = strings.TrimPrefix(x, "github.com/sdcio/yang-parser/")
				if k := strings.LastIndex(f, "("); k > 0 {
					f = f[:k]
				}
				lib = true
				break
			}
		}
		frames = append(frames, f)
	}
	sort.Strings(frames)
	return strings.Join(frames, "|"), lib
}

func clip(s string, n int) string {
	if len(s) > n {
		return s[:n] + "..."
	}
	return s
}

func (w world) RunCase(t *tape.Tape, st *super.Stats) *super.Violation {
	inc := func(k string) {
		if st != nil {
			st.Inc(k)
		}
	}
	// One case per process (Config.CasesPerProcess = 1): the function table's
	// lazy initialisation happens once per process, and a case must be a pure
	// function of its tape to be replayable. Whether the first lookup falls into
	// the concurrent phase is a tape draw: shared machines without function
	// calls leave the table untouched until the clients run.
	if caseInProcess > 0 {
		fmt.Fprintln(os.Stderr, "C06: more than one case in a process")
		os.Exit(2)
	}
	caseInProcess++
	first := t.Draw(3) > 0
	collide := false
	if _, err := os.Stat("/lib/xpath/plugins"); err == nil {
		fmt.Fprintln(os.Stderr, "C06: /lib/xpath/plugins exists; plugin loading is not simulated")
		os.Exit(2)
	}
	// ---- generation (before any client exists)
	seg0 := t.Len()
	tree := faulttree.Generate(t, "T")
	treeSeg := t.Recorded()[seg0:]
	g := &genxpath.Gen{T: t, Tree: tree, Ctx: tree.Nodes[t.Draw(len(tree.Nodes))]}
	if t.Coin() {
		// a focus function: shared machines, private machines and concurrent compilations (valid ones and
		// ones with a wrong number of arguments) meet on one entry of the function table. Shared machine 0
		// is a well-typed literal call of it (a run gets as far as the function), and the clients compile
		// calls of it with every number of arguments. (These cases have their first lookup before the clients start.)
		g.Focus = 1 + t.Draw(genxpath.NumFuncs())
		first = false
		inc("reach:case_with_focus_function")
		if t.Coin() {
			// a custom function registered before any client exists (registration concurrent with lookups is not
			// part of the property; registration beforehand is what a program with plugins does): expressions
			// calling it compile only through the constructors that allow custom functions
			xpath.RegisterCustomFunctions([]xpath.CustomFunctionInfo{{
				Name:          "custom-fn",
				FnPtr:         func(args []xpath.Datum) xpath.Datum { return xpath.NewLiteralDatum("custom") },
				Args:          []xpath.DatumTypeChecker{xpath.TypeIsLiteral},
				RetType:       xpath.TypeIsLiteral,
				DefaultRetVal: xpath.NewLiteralDatum(""),
			}})
			inc("reach:custom_function_registered")
		}
		if t.Rare(4) {
			// every compilation of the case is a call of the focus function on literals from a tiny pool of
			// look-alike strings (see genxpath.CollisionCall)
			collide = true
			inc("reach:case_with_look_alike_argument_tuples")
		}
	}
	g.NoFuncs = first // keep the process's first function lookup for the concurrent phase
	nShared := 1 + t.Draw(3)
	var sharedExpr []string
	var shared []*xpath.Machine
	var sharedList []string
	for i := 0; i < nShared; i++ {
		e := g.Expr(1 + t.Draw(3))
		if wt := g.WellTyped(); i == 0 && wt != "" {
			e = wt
			if t.Rare(3) {
				e = wt + " = " + g.Expr(1)
			}
		}
		var m *xpath.Machine
		if !isolateChild {
			m, _ = compileOp(op{gram: 0, expr: e})
		}
		sharedExpr = append(sharedExpr, e)
		shared = append(shared, m)
		if m != nil {
			sharedList = append(sharedList, m.PrintMachine()+m.GetExpr())
		} else {
			sharedList = append(sharedList, "")
		}
	}
	g.NoFuncs = false
	g.FuncBias = true
	W := 2 + t.Draw(4)
	// "crowd" cases: many clients with short programs all running shared machine 0 (anything that counts or
	// limits simultaneous runs of one machine needs more of them than a handful)
	crowd := t.Rare(8)
	if crowd {
		W = 17 + t.Draw(8)
		inc("reach:crowd_of_17plus_clients_on_one_machine")
		// prefer a comparison with a leaf-list on the left: the run then spends time inside one instruction
		for _, n := range tree.Nodes {
			if n.Kind == faulttree.LeafList && t.Coin() {
				g.Ctx = tree.Root
				e := "/" + strings.TrimPrefix(n.String(), "/")
				if i := strings.Index(e, "["); i < 0 {
					var m *xpath.Machine
					if !isolateChild {
						m, _ = compileOp(op{gram: 0, expr: e + " = 'x'"})
					} else {
						sharedExpr[0] = e + " = 'x'" // (the parent replaces it only when the expression compiles; so does every comparison of a plain path)
					}
					if m != nil {
						sharedExpr[0], shared[0], sharedList[0] = e+" = 'x'", m, m.PrintMachine()+m.GetExpr()
					}
				}
				break
			}
		}
	}
	progs := make([][]op, W)
	var compiled []op // the compile operations generated so far (any client)
	for c := 0; c < W; c++ {
		n := 3 + t.Draw(7)
		if crowd {
			n = 1 + t.Draw(2)
		}
		for i := 0; i < n; i++ {
			g.Ctx = tree.Nodes[t.Draw(len(tree.Nodes))]
			var o op
			w0, w1, w2, w3 := 3, 4, 2, 2
			if crowd {
				w0, w1, w2, w3 = 0, 1, 0, 0
			} else if collide {
				w0, w1, w2, w3 = 3, 1, 4, 2
			}
			switch t.Pick(w0, w1, w2, w3) {
			case 3:
				// a machine nobody keeps: compiled, given to a context, forgotten while the context runs
				o = op{kind: 3, ctx: t.Draw(len(tree.Nodes)), expr: g.Expr(2 + t.Draw(4))}
				if collide {
					o.expr = g.CollisionCall()
				} else if t.Coin() {
					// a long program (dozens of instructions): several expressions joined by operators
					for n := 3 + t.Draw(6); n > 0; n-- {
						o.expr += []string{" or ", " and ", " = ", " + ", " | "}[t.Draw(5)] + g.Expr(1+t.Draw(3))
					}
				}
				if t.Rare(3) {
					o.failAt = 1 + t.Draw(4)
				}
				if t.Draw(4) > 0 {
					o.gcAt = 1 + t.Draw(4)
				}
			case 0:
				o = op{kind: 0, gram: t.Pick(5, 2, 1, 2, 1), mapMode: t.Pick(3, 3, 1, 2)}
				wv := 0
				if g.Focus > 0 {
					wv = 3
				}
				pk := t.Pick(6, 2, 1, wv)
				if collide {
					pk = 4
				}
				switch pk {
				case 4:
					o.expr = g.CollisionCall()
					o.gram = 0
				case 3:
					o.expr = g.ArityVariant(t.Draw(6))
					o.gram = 0
				case 0:
					o.expr = g.Expr(1 + t.Draw(4))
				case 1:
					o.expr = g.Damage(g.Expr(t.Draw(3)))
				case 2:
					o.expr = g.Leafref()
				}
				if len(compiled) > 0 && t.Rare(5) {
					// the same text (same grammar) as an earlier compilation of the case, under another prefix map
					prev := compiled[t.Draw(len(compiled))]
					o.expr, o.gram = prev.expr, prev.gram
					if t.Coin() && o.gram < 4 {
						o.gram ^= 1 // the sibling constructor: with / without custom functions allowed
					}
					o.mapMode = []int{1, 3}[t.Draw(2)]
					if o.mapMode == prev.mapMode {
						o.mapMode = 4 - prev.mapMode
						if prev.mapMode != 1 && prev.mapMode != 3 {
							o.mapMode = 3
						}
					}
					inc("reach:same_text_compiled_under_another_prefix_map")
				}
				compiled = append(compiled, o)
			case 1:
				o = op{kind: 1, shared: t.Draw(nShared), ctx: t.Draw(len(tree.Nodes))}
				if crowd {
					o.shared = 0
				}
				if t.Rare(3) {
					o.failAt = 1 + t.Draw(4)
				}
				if t.Rare(8) {
					o.gcAt = 1 + t.Draw(4)
				}
				o.debug = t.Rare(6)
				o.legacy = !o.debug && o.failAt == 0 && o.gcAt == 0 && o.ctx%4 == 3
				if o.legacy {
					inc("reach:run_through_NewCtxFromMach")
				}
			case 2:
				o = op{kind: 2, ctx: t.Draw(len(tree.Nodes))}
				if t.Rare(3) {
					o.failAt = 1 + t.Draw(4)
				}
				if t.Rare(8) {
					o.gcAt = 1 + t.Draw(4)
				}
				o.debug = t.Rare(6)
				o.legacy = !o.debug && o.failAt == 0 && o.gcAt == 0 && o.ctx%4 == 3
				if o.legacy {
					inc("reach:run_through_NewCtxFromMach")
				}
			}
			progs[c] = append(progs[c], o)
		}
	}
	// ---- fresh-process oracle (sampled): "in isolation" taken literally
	freshSample := collide || t.Rare(16)
	genTape := t.Recorded()
	isolatedOne := func(tree2 *faulttree.Tree, c, i int) outcome {
		o := progs[c][i]
		tag := fmt.Sprintf("c%do%d", c, i)
		switch o.kind {
		case 0:
			_, oc := compileOp(o)
			return oc
		case 1:
			m, _ := compileOp(op{gram: 0, expr: sharedExpr[o.shared]})
			return runOp(m, tree2, o, tag, false)
		case 2:
			var m *xpath.Machine
			for k := i - 1; k >= 0; k-- {
				if progs[c][k].kind == 0 {
					m, _ = compileOp(progs[c][k])
					break
				}
			}
			return runOp(m, tree2, o, tag, false)
		}
		return runTemp(o, tree2, tag, false)
	}
	if isolateChild {
		// this process exists to do ONE operation of the case and nothing else
		var c, i int
		fmt.Sscanf(os.Getenv("VERIF_C06_ISOLATE"), "%d:%d", &c, &i)
		answer := "ISOLATED-BAD-INDEX\n"
		if c >= 0 && c < len(progs) && i >= 0 && i < len(progs[c]) {
			out := isolatedOne(faulttree.Generate(tape.Replay(treeSeg), "T"), c, i)
			answer = "ISOLATED " + strconv.Quote(out.String()) + "\n"
		}
		// (standard output is silenced while a case runs: the answer goes to a file)
		os.WriteFile(os.Getenv("VERIF_C06_ISOLATE_OUT"), []byte(answer), 0o644)
		os.Exit(0)
	}
	strategy := t.Draw(5)
	param := 1 + t.Draw(8)
	level := []uint32{0, 2, 6, 16}[t.Draw(4)]
	stmtYields := t.Rare(3) // switch points between any two statements of xpath/* (narrow windows)
	if stmtYields && level == 0 {
		level = 6
	}
	prio := make([]int, W)
	for i := range prio {
		prio[i] = t.Draw(1000)
	}
	quantum := 0
	var s *sched.Sched
	pick := func(runnable []int, last int) int {
		switch strategy {
		case 4: // adversarial: leave a client that holds a lock parked and let the others run into it
			if s.HoldsLock(last) {
				var others []int
				for _, r := range runnable {
					if r != last {
						others = append(others, r)
					}
				}
				if len(others) > 0 {
					return others[t.Draw(len(others))]
				}
			}
		case 1: // sticky: keep the same client unless a switch is drawn
			for _, r := range runnable {
				if r == last && t.Draw(param+1) != 0 {
					return r
				}
			}
		case 2: // round-robin with quantum
			quantum++
			if quantum%param != 0 {
				for _, r := range runnable {
					if r == last {
						return r
					}
				}
			}
			for _, r := range runnable {
				if r > last {
					return r
				}
			}
			return runnable[0]
		case 3: // priorities with rare change points (PCT-like)
			if t.Rare(16) {
				prio[t.Draw(W)] = t.Draw(1000)
			}
			best := runnable[0]
			for _, r := range runnable {
				if prio[r] > prio[best] {
					best = r
				}
			}
			return best
		}
		return runnable[t.Draw(len(runnable))]
	}
	desc := func() string {
		var b strings.Builder
		fmt.Fprintf(&b, "first case of the process: %v; clients: %d; strategy %d/%d; yield level %d/16; statement-level yields %v\n", first, W, strategy, param, level, stmtYields)
		for i, e := range sharedExpr {
			fmt.Fprintf(&b, "shared machine %d: %q\n", i, e)
		}
		for c, p := range progs {
			fmt.Fprintf(&b, "client %d:", c)
			for _, o := range p {
				switch o.kind {
				case 0:
					fmt.Fprintf(&b, " Compile[%s,map%d](%q)", grammars[o.gram].name, o.mapMode, o.expr)
				case 1:
					fmt.Fprintf(&b, " Run(shared %d, ctx %d, fail@%d)", o.shared, o.ctx, o.failAt)
				case 2:
					fmt.Fprintf(&b, " Run(own, ctx %d, fail@%d)", o.ctx, o.failAt)
				}
			}
			b.WriteString("\n")
		}
		fmt.Fprintf(&b, "tree:\n%s", tree.Describe())
		return b.String()
	}
	super.SetHangInfo(desc)

	// ---- concurrent phase
	results := make([][]outcome, W)
	s = sched.New(pick)
	s.Level = level
	s.Stmt = stmtYields
	if stmtYields {
		s.MaxSteps = 200000
		inc("reach:statement_level_yields")
	}
	s.YieldBudget = s.MaxSteps * 6 / 10 // optional switch points stop well before the bound on the others is near
	// isolated(): every operation of every client done alone: fresh compile, fresh copy of the tree,
	// single goroutine. Done after the concurrent phase (the reference for the clients' results) and,
	// when the case does not keep the process's first function lookup for the concurrent phase, also
	// before it: the two must agree (a result that depends on the process's history is not "the result
	// it would return in isolation").
	isolated := func() [][]outcome {
		tree2 := faulttree.Generate(tape.Replay(treeSeg), "T")
		out := make([][]outcome, len(progs))
		for c, p := range progs {
			out[c] = make([]outcome, len(p))
			var ownExpr *op
			for i, o := range p {
				switch o.kind {
				case 0:
					oc := o
					ownExpr = &oc
					_, out[c][i] = compileOp(o)
				case 1:
					m, _ := compileOp(op{gram: 0, expr: sharedExpr[o.shared]})
					out[c][i] = runOp(m, tree2, o, fmt.Sprintf("c%do%d", c, i), false)
				case 2:
					var m *xpath.Machine
					if ownExpr != nil {
						m, _ = compileOp(*ownExpr)
					}
					out[c][i] = runOp(m, tree2, o, fmt.Sprintf("c%do%d", c, i), false)
				case 3:
					out[c][i] = runTemp(o, tree2, fmt.Sprintf("c%do%d", c, i), false)
				}
			}
		}
		return out
	}
	var pre [][]outcome
	if !first && t.Coin() {
		// (only half of these cases: taking the reference first also warms every process-wide cache,
		// and the cold start under concurrency is worth as many cases)
		pre = isolated()
		inc("reach:isolation_reference_also_taken_before_the_history")
	}
	for c := 0; c < W; c++ {
		c := c
		results[c] = make([]outcome, len(progs[c]))
		s.Add(func() {
			var own *xpath.Machine
			for i, o := range progs[c] {
				switch o.kind {
				case 0:
					own, results[c][i] = compileOp(o)
				case 1:
					results[c][i] = runOp(shared[o.shared], tree, o, fmt.Sprintf("c%do%d", c, i), true)
				case 2:
					results[c][i] = runOp(own, tree, o, fmt.Sprintf("c%do%d", c, i), true)
				case 3:
					results[c][i] = runTemp(o, tree, fmt.Sprintf("c%do%d", c, i), true)
				}
				sched.Always("op-done")
			}
		})
	}
	var wg sync.WaitGroup
	s.Run(func(body func()) {
		wg.Add(1)
		go func() { defer wg.Done(); body() }()
	})
	if s.Abandoned() {
		// parked clients can never be resumed: the process must end after this case
		super.EndProcessAfterCase()
		var blocked []string
		for _, stp := range s.Steps[max(0, len(s.Steps)-W*2):] {
			if stp.Kind == 'B' {
				blocked = append(blocked, stp.Site)
			}
		}
		sort.Strings(blocked)
		if s.Deadlock {
			return &super.Violation{Class: "deadlock", Sig: "deadlock|" + strings.Join(dedup(blocked), ","),
				Detail: "every client is waiting for a lock that nobody will release\n" + desc()}
		}
		return &super.Violation{Class: "no-progress", Sig: "no-progress|step-limit",
			Detail: fmt.Sprintf("clients still running after %d scheduler steps\n%s", len(s.Steps), desc())}
	}
	wg.Wait()
	s.Close()

	// ---- measurements
	switches := 0
	contention := false
	lastW := -1
	var sb strings.Builder
	inLookup := map[int]bool{}
	for _, stp := range s.Steps {
		if stp.Worker != lastW && lastW >= 0 {
			switches++
		}
		lastW = stp.Worker
		if stp.Kind == 'B' {
			contention = true
		}
		fmt.Fprintf(&sb, "%d%c%s;", stp.Worker, stp.Kind, stp.Site)
		_ = inLookup
	}
	if st != nil {
		st.Add("scheduler_steps", int64(len(s.Steps)))
		st.Add("fault:schedule-switch", int64(switches))
		if contention {
			st.Inc("fault:lock-contention")
			st.Inc("reach:client_waited_for_function_table_lock")
		}
		if first {
			st.Inc("fault:first-lookup-in-concurrent-phase")
		}
		st.Add("fault:garbage-collection-with-finalizers", int64(gcForced))
		st.Add("observed:finalizer_wait_timed_out", int64(gcWaitTimedOut))
		if switches > 0 {
			st.Seen("schedules", super.Hash(sb.String()))
		}
		st.Max("max:scheduler_steps_in_one_case", int64(len(s.Steps)))
		users := map[int]map[int]bool{}
		for c, p := range progs {
			for _, o := range p {
				if o.kind == 1 {
					if users[o.shared] == nil {
						users[o.shared] = map[int]bool{}
					}
					users[o.shared][c] = true
				}
			}
		}
		for _, u := range users {
			if len(u) >= 2 && switches > 0 {
				st.Inc("reach:same_machine_run_by_2plus_clients")
				break
			}
		}
	}

	if super.Noting() {
		super.Note(sb.String())
		for c := range results {
			for _, r := range results[c] {
				super.Note(r.String())
			}
		}
	}

	// ---- oracle 3: data races (deterministic per schedule)
	for _, rep := range readRaces() {
		sig, lib := raceSig(rep)
		if !lib {
			fmt.Fprintf(os.Stderr, "C06: race report without a library frame (harness trouble):\n%s\n", rep)
			super.Trouble("race report without a library frame: " + clip(rep, 600))
			continue
		}
		return &super.Violation{Class: "race", Sig: "race|" + sig,
			Detail: "the race detector reports two accesses not ordered by the library's own synchronisation\n" + clip(rep, 2500) + "\n" + desc()}
	}

	// ---- oracle 2: immutability of shared objects
	for i, m := range shared {
		if m != nil && m.PrintMachine()+m.GetExpr() != sharedList[i] {
			return &super.Violation{Class: "shared-state-mutated", Sig: "shared-state-mutated|machine-listing",
				Detail: fmt.Sprintf("shared machine %d prints differently after the runs\n%s", i, desc())}
		}
	}
	if ok, why := tree.ValuesIntact(); !ok {
		return &super.Violation{Class: "shared-state-mutated", Sig: "shared-state-mutated|tree-owned-value",
			Detail: "a leaf-list value slice owned by the data tree (wrapped by NewDatumSliceDatum in Entry.GetValue) was modified by a run: " + why + "\n" + desc()}
	}
	if ok, why := tree.PathsIntact(); !ok {
		tree.RestorePaths()
		return &super.Violation{Class: "shared-state-mutated", Sig: "shared-state-mutated|tree-owned-path",
			Detail: "an object owned by the data tree (the *sdcpb.Path returned by Entry.GetSdcpbPath) was modified by a run: " + why + "\n" + desc()}
	}

	// ---- oracle 1: isolation (fresh compile, fresh tree copy, single goroutine)
	post := isolated()
	for c, p := range progs {
		for i, o := range p {
			want := post[c][i]
			inc("operations_checked_against_isolation")
			got := results[c][i]
			for _, m := range got.inj {
				inc("fault:" + m)
			}
			if o.kind == 0 && strings.Contains(got.text, "SIMFAULT-mapFn") {
				inc("fault:mapFn-error")
			}
			site := "run"
			if o.kind == 0 {
				site = "compile:" + grammars[o.gram].name
			}
			if got.String() != want.String() {
				what := "result"
				if got.text == want.text {
					what = "request-trace"
				}
				return &super.Violation{Class: "divergence", Sig: "divergence|" + what + "|" + site,
					Detail: fmt.Sprintf("client %d operation %d differs from the same operation in isolation\n--- concurrent/history run:\n%s\n--- isolated run:\n%s\n%s", c, i, clip(got.String(), 1500), clip(want.String(), 1500), desc())}
			}
			// the isolated operation itself must not depend on what the process did before: the same
			// fresh compile + single-goroutine run gave `pre` before any client existed
			if pre != nil && pre[c][i].String() != want.String() {
				inc("operations_checked_before_and_after_history")
				return &super.Violation{Class: "divergence", Sig: "divergence|history|" + site,
					Detail: fmt.Sprintf("client %d operation %d, done alone on a fresh machine and a fresh tree, gives a different result after the case's history than before it (state outside the machine and the context is carried between runs)\n--- before:\n%s\n--- after:\n%s\n%s", c, i, clip(pre[c][i].String(), 1500), clip(want.String(), 1500), desc())}
			} else if pre != nil {
				inc("operations_checked_before_and_after_history")
			}
		}
	}
	if freshSample {
		type ci struct{ c, i int }
		var cand []ci
		for c, p := range progs {
			for i := range p {
				cand = append(cand, ci{c, i}) // run operations and compilations (whose outcome is the machine's listing)
			}
		}
		nfresh := 4
		if collide {
			nfresh = 10
		}
		for k := 0; k < nfresh && len(cand) > 0; k++ {
			j := t.Draw(len(cand))
			x := cand[j]
			cand = append(cand[:j:j], cand[j+1:]...)
			want, ok := freshProcess(genTape, x.c, x.i)
			if !ok {
				super.Trouble("fresh-process oracle: " + clip(want, 300))
				continue
			}
			inc("operations_checked_against_a_fresh_process")
			if got := results[x.c][x.i].String(); got != want {
				return &super.Violation{Class: "divergence", Sig: "divergence|fresh-process|run",
					Detail: fmt.Sprintf("client %d operation %d differs from the same operation done alone in a fresh process (the process's earlier compilations and runs left something behind that changes results)\n--- in this process:\n%s\n--- in a fresh process:\n%s\n%s", x.c, x.i, clip(got, 1500), clip(want, 1500), desc())}
			}
		}
	}
	if st != nil {
		if W >= 2 && switches > 0 {
			st.Sample(map[string]any{"clients": W, "scheduler_steps": len(s.Steps), "switches": switches, "shared_machines": sharedExpr, "schedule_head": clip(sb.String(), 300)})
		}
		super.Event("%016x", super.Hash(sb.String()))
	}
	return nil
}

func dedup(l []string) []string {
	var out []string
	for i, s := range l {
		if i == 0 || s != l[i-1] {
			out = append(out, s)
		}
	}
	return out
}

func main() {
	runtime.GOMAXPROCS(4)
	if v := os.Getenv("VERIF_GOMAXPROCS"); v != "" {
		n := 0
		fmt.Sscan(v, &n)
		if n >= 2 {
			runtime.GOMAXPROCS(n)
		}
	}
	simrt.YieldHook = sched.Yield
	simrt.LockHook = sched.Always
	simrt.BlockedHook = sched.Blocked
	simrt.UnlockHook = sched.Unlocked
	simrt.AcquiredHook = sched.Acquired
	super.Main(world{}, super.Config{
		QuickCases:       500,
		ThoroughSeconds:  900,
		CasesPerProcess:  1,
		CaseTimeout:      25e9,
		WatchdogTimeout:  8e9,
		MinimiseBudget:   200,
		SubprocBudget:    30,
		Procs:            16,
		CrashIsViolation: true,
		HangIsViolation:  true,
		SubprocMinimise:  true,
		RaceLog:          true,
	})
}
