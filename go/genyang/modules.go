package genyang

import (
	"fmt"
	"sort"
	"strings"

	"verif/tape"
)

// Module is one generated module or submodule.
type Module struct {
	Name      string
	Prefix    string
	Sub       bool   // submodule
	BelongsTo string // for submodules
	Root      *Stmt
	Imports   []*Module
	// what this module defines (for cross references)
	Features   []string
	Identities []string
	Typedefs   []*TypeDef
	Groupings  []*Grouping
	Top        []*DNode // top-level data nodes (own + nodes others augmented in are tracked on the DNode)
	Extensions []string // names of extension statements defined here
	IdBase     map[string]struct {
		m *Module
		n string
	} // derived identity defined here -> its base
}

type TypeDef struct {
	Name   string
	Mod    *Module
	Base   string // builtin base name
	Lo, Hi int    // numeric range or string length range
	Enums  []string
	HasDef bool
	IdName string  // Base "identityref": an identity derived from the base (a usable value), and
	IdMod  *Module // the module that defines it
}

type Grouping struct {
	Name  string
	Mod   *Module
	Nodes []*DNode
}

// DNode models a schema node for reference generation.
type DNode struct {
	Kind   string // container list leaf leaf-list choice case
	Name   string
	Mod    *Module // namespace owner
	Parent *DNode
	Kids   []*DNode
	Stmt   *Stmt
	Config bool
	LrHops int // leafref: how many leafrefs lie between this leaf and a leaf of another type (0: not a leafref)
}

// Set is a generated module set plus what was done to it.
type Set struct {
	Mods     []*Module
	Features []string // feature names "mod:feat" the checker enables
	Ops      []string // ill-formedness operators applied
	Probes   map[string]bool
	Touched  []*Module // the module an ill-formedness operator started from (it usually holds the damage)
	// Aliases: further entries of the set, supplied under a key that is NOT the (sub)module's name (an older
	// revision under "name@date"). NOT generated: the compiler resolves imports and includes by map key, so
	// such a map is outside what the property quantifies over (DESIGN.md 11.5, observation O-2)
	Aliases map[string]string
}

type gen struct {
	t    *tape.Tape
	set  *Set
	n    int // name counter
	mods []*Module
	all  []*Module // modules and submodules
	// scale: in a few sets one kind of definition (1 features, 2 identities, 3 typedefs,
	// 4 groupings) is drawn scaleBy times as often: hundreds of definitions of one kind, so
	// that code which behaves differently above a size threshold is reached at all
	scaleKind, scaleBy int
	usedSpecial        map[string]bool
}

func (g *gen) times(kind, n int) int {
	if kind == g.scaleKind && g.scaleBy > 1 {
		if n == 0 {
			n = 1
		}
		return n * g.scaleBy
	}
	return n
}

func (g *gen) name(p string) string { g.n++; return fmt.Sprintf("%s%d", p, g.n) }

// defName names a definition (typedef, grouping, identity, feature): usually a fresh counter name, now and
// then a name that means something else somewhere: a built-in type, a statement keyword, a reserved
// prefix, a name with every punctuation an identifier may have. Each special name is used at most once
// per set (two definitions of one name would just be a duplicate).
func (g *gen) defName(p string) string {
	if len(g.usedSpecial) == 0 && g.t.Rare(250) { // (one per set at most, in about one set in six: the pinned parser rejects most of them, and the set is then lost for world C11)
		pool := []string{"string", "uint8", "int64", "union", "enumeration", "boolean", "empty", "leafref", "identityref", "bits", "binary", "decimal64", "instance-identifier",
			"leaf", "container", "type", "default", "module", "grouping", "config", "xml-thing", "XMLname", "a.b-c_d", "_u", "x-1.2"}
		n := pool[g.t.Draw(len(pool))]
		if !g.usedSpecial[n] {
			if g.usedSpecial == nil {
				g.usedSpecial = map[string]bool{}
			}
			g.usedSpecial[n] = true
			g.set.Probes["definition_with_special_name"] = true
			return n
		}
	}
	return g.name(p)
}

// GenerateSet draws a module set. With illFormed, one or two ill-formedness
// operators may be applied (recorded in Set.Ops).
func GenerateSet(t *tape.Tape, illFormed bool) *Set {
	g := &gen{t: t, set: &Set{Probes: map[string]bool{}}}
	if t.Rare(12) {
		g.scaleKind = 1 + t.Draw(4)
		g.scaleBy = 20 + t.Draw(130)
		g.set.Probes["scaled_definitions"] = true
	}
	nm := 1 + t.Draw(4)
	for i := 0; i < nm; i++ {
		m := &Module{Name: fmt.Sprintf("m%d", i), Prefix: fmt.Sprintf("p%d", i)}
		m.Root = S("module", m.Name,
			S("namespace", "urn:"+m.Name),
			S("prefix", m.Prefix))
		// imports of earlier modules (acyclic)
		for j := 0; j < i; j++ {
			if t.Draw(3) > 0 {
				imp := g.importStmt(m, g.mods[j])
				m.Root.Add(imp)
				m.Imports = append(m.Imports, g.mods[j])
			}
		}
		g.mods = append(g.mods, m)
		g.all = append(g.all, m)
	}
	// submodules of m0 (and maybe of the last module)
	nsub := t.Draw(4)
	var subs []*Module
	for i := 0; i < nsub; i++ {
		oi := 0
		if t.Draw(5) >= 3 {
			oi = t.Draw(len(g.mods))
		}
		owner := g.mods[oi]
		sm := &Module{Name: fmt.Sprintf("s%d", i), Prefix: owner.Prefix, Sub: true, BelongsTo: owner.Name, Imports: owner.Imports}
		sm.Root = S("submodule", sm.Name, S("belongs-to", owner.Name, S("prefix", owner.Prefix)))
		// a submodule may import modules of its own (only earlier ones, so that no import cycle arises)
		for j := 0; j < oi; j++ {
			if t.Coin() {
				sm.Root.Add(g.importStmt(sm, g.mods[j]))
			}
		}
		owner.Root.Kids = append(owner.Root.Kids[:2:2], append([]*Stmt{S("include", sm.Name)}, owner.Root.Kids[2:]...)...)
		// submodule including an earlier submodule of the same owner
		for _, prev := range subs {
			if prev.BelongsTo == owner.Name && t.Rare(3) {
				sm.Root.Add(S("include", prev.Name))
				g.set.Probes["submodule_includes_submodule"] = true
			}
		}
		subs = append(subs, sm)
		g.all = append(g.all, sm)
	}
	all := append(append([]*Module{}, g.mods...), subs...)
	g.all = all
	for _, m := range all {
		// 0..3 revisions, newest first (the parser insists on that order)
		revs := []string{"2022-03-01", "2021-06-30", "2020-01-01"}
		for i, n := t.Draw(3), t.Draw(4); n > 0 && i < len(revs); i, n = i+1, n-1 {
			r := S("revision", revs[i])
			if t.Rare(3) {
				r.Add(S("description", "rev"))
			}
			m.Root.Add(r)
		}
	}
	// definitions: dependency order — a module's submodules first (the module sees
	// their definitions through its include), modules in import order
	var defOrder []*Module
	for _, m := range g.mods {
		for _, sm := range subs {
			if sm.BelongsTo == m.Name {
				defOrder = append(defOrder, sm)
			}
		}
		defOrder = append(defOrder, m)
	}
	for _, m := range defOrder {
		g.features(m)
		g.identities(m)
		g.typedefs(m)
		g.groupings(m)
		if !m.Sub && t.Rare(4) {
			for n := 1 + t.Draw(2); n > 0; n-- {
				e := S("extension", g.name("ext"))
				if t.Coin() {
					e.Add(S("argument", "a"))
				}
				m.Root.Add(e)
				m.Extensions = append(m.Extensions, e.Arg)
			}
		}
	}
	for _, m := range defOrder {
		g.data(m)
	}
	for _, m := range all {
		g.augments(m)
	}
	for _, m := range g.mods {
		g.deviations(m)
	}
	g.clusters()
	for _, m := range all {
		if t.Rare(4) {
			m.Root.Add(S("rpc", g.name("rpc"), S0("input", g.leaf(m, nil, true).Stmt), S0("output", g.leaf(m, nil, true).Stmt)))
		}
		if t.Rare(5) {
			m.Root.Add(S("notification", g.name("notif"), g.leaf(m, nil, true).Stmt))
		}
	}
	g.set.Mods = g.all
	if illFormed {
		n := 1
		if t.Rare(4) {
			n = 2
			g.set.Probes["two_ill_formed_ops"] = true
		}
		for i := 0; i < n; i++ {
			g.breakSomething()
		}
	}
	return g.set
}

// importStmt builds `import target { prefix p; }` for m. Usually p is the
// target's own prefix; sometimes a local alias from a small pool, so that the
// same prefix string means different modules in different importers.
func (g *gen) importStmt(m, target *Module) *Stmt {
	p := target.Prefix
	if g.t.Rare(4) {
		p = []string{"dep", "ext", "q"}[g.t.Draw(3)]
	}
	// unique within m and different from m's own prefix
	for tries := 0; tries < 4; tries++ {
		clash := p == m.Prefix
		for _, k := range m.Root.Kids {
			if k.Kw == "import" && k.Find("prefix") != nil && k.Find("prefix").Arg == p {
				clash = true
			}
		}
		if !clash {
			break
		}
		p = target.Prefix
		if tries > 0 {
			p = fmt.Sprintf("%sx%d", target.Prefix, tries)
		}
	}
	if p != target.Prefix {
		g.set.Probes["import_with_alias_prefix"] = true
	}
	imp := S("import", target.Name, S("prefix", p))
	if g.t.Rare(5) {
		imp.Add(S("revision-date", []string{"2022-03-01", "2021-06-30", "2019-01-01"}[g.t.Draw(3)]))
	}
	return imp
}

// pfx is the prefix by which m refers to module target (its own prefix for
// itself and its family, else the prefix of m's import statement).
func (g *gen) pfx(m, target *Module) string {
	target = g.owner(target)
	if g.owner(m) == target {
		return m.Prefix
	}
	for _, k := range m.Root.Kids {
		if k.Kw == "import" && k.Arg == target.Name {
			if p := k.Find("prefix"); p != nil {
				return p.Arg
			}
		}
	}
	return target.Prefix
}

// byName finds a generated module or submodule.
func (g *gen) byName(n string) *Module {
	for _, x := range g.all {
		if x.Name == n {
			return x
		}
	}
	return nil
}

// owner is the module a submodule belongs to (a module owns itself).
func (g *gen) owner(m *Module) *Module {
	if m.Sub {
		if o := g.byName(m.BelongsTo); o != nil {
			return o
		}
	}
	return m
}

// visible lists the modules/submodules whose definitions m may reference:
// itself, the submodules it includes, and every imported module together with
// the submodules that module includes. A submodule does NOT see its owner.
func (g *gen) visible(m *Module) []*Module {
	v := []*Module{m}
	add := func(x *Module) {
		for _, y := range v {
			if y == x {
				return
			}
		}
		v = append(v, x)
	}
	for _, st := range m.Root.Kids {
		switch st.Kw {
		case "include":
			if x := g.byName(st.Arg); x != nil && x != m {
				add(x)
			}
		case "import":
			if x := g.byName(st.Arg); x != nil && !x.Sub && x != g.owner(m) {
				add(x)
				for _, k := range x.Root.Kids {
					if k.Kw == "include" {
						if y := g.byName(k.Arg); y != nil {
							add(y)
						}
					}
				}
			}
		}
	}
	return v
}

// ref renders a reference to name defined in module def as seen from m.
func (g *gen) ref(m, def *Module, name string) string {
	if g.owner(m) == g.owner(def) {
		// (this compiler does not resolve the belongs-to prefix inside a submodule)
		if g.t.Rare(3) && !m.Sub {
			return m.Prefix + ":" + name
		}
		return name
	}
	return g.pfx(m, def) + ":" + name
}

func (g *gen) features(m *Module) {
	t := g.t
	for n := g.times(1, t.Draw(4)); n > 0; n-- {
		f := S("feature", g.defName("f"))
		// if-feature chain to visible earlier features
		var cands []struct {
			m *Module
			n string
		}
		for _, v := range g.visible(m) {
			for _, fn := range v.Features {
				cands = append(cands, struct {
					m *Module
					n string
				}{v, fn})
			}
		}
		if len(cands) > 0 && t.Coin() {
			c := cands[t.Draw(len(cands))]
			f.Add(S("if-feature", g.ref(m, c.m, c.n)))
			g.set.Probes["feature_chain"] = true
			// a second (and third) if-feature: diamonds in the feature graph
			for len(cands) > 1 && t.Rare(6) {
				c2 := cands[t.Draw(len(cands))]
				if c2 != c {
					f.Add(S("if-feature", g.ref(m, c2.m, c2.n)))
					g.set.Probes["feature_with_several_if_features"] = true
				}
			}
		}
		m.Root.Add(f)
		if m.Sub && !t.Rare(48) {
			continue // this compiler does not merge features defined in submodules: define, rarely reference
		}
		m.Features = append(m.Features, f.Arg)
		own := g.owner(m).Name
		if t.Draw(3) > 0 {
			g.set.Features = append(g.set.Features, own+":"+f.Arg)
		}
	}
}

func (g *gen) identities(m *Module) {
	t := g.t
	for n := g.times(2, t.Draw(4)); n > 0; n-- {
		id := S("identity", g.defName("id"))
		var cands []struct {
			m *Module
			n string
		}
		for _, v := range g.visible(m) {
			for _, in := range v.Identities {
				cands = append(cands, struct {
					m *Module
					n string
				}{v, in})
			}
		}
		if len(cands) > 0 && t.Draw(3) > 0 {
			c := cands[t.Draw(len(cands))]
			id.Add(S("base", g.ref(m, c.m, c.n)))
			if c.m != m {
				g.set.Probes["identity_base_cross_module"] = true
			}
			if !m.Sub {
				if m.IdBase == nil {
					m.IdBase = map[string]struct {
						m *Module
						n string
					}{}
				}
				m.IdBase[id.Arg] = struct {
					m *Module
					n string
				}{c.m, c.n}
			}
		}
		m.Root.Add(id)
		if m.Sub && !t.Rare(48) {
			continue // likewise for identities
		}
		m.Identities = append(m.Identities, id.Arg)
	}
}

var intTypes = []struct {
	n      string
	lo, hi int
}{{"int8", -128, 127}, {"int16", -32768, 32767}, {"int32", -1000000, 1000000}, {"uint8", 0, 255}, {"uint16", 0, 65535}, {"uint32", 0, 1000000}, {"int64", -1000000, 1000000}, {"uint64", 0, 1000000}}

// typeStmt draws a type statement usable in module m; returns a default value valid for it ("" if none sensible).
func (g *gen) typeStmt(m *Module, depth int) (*Stmt, string) {
	t := g.t
	// reference to a typedef
	var tds []*TypeDef
	for _, v := range g.visible(m) {
		tds = append(tds, v.Typedefs...)
	}
	if len(tds) > 0 && t.Draw(3) == 2 {
		td := tds[t.Draw(len(tds))]
		ty := S("type", g.ref(m, td.Mod, td.Name))
		def := ""
		switch td.Base {
		case "int":
			lo, hi := td.Lo, td.Hi
			if hi-lo > 4 && t.Coin() {
				hi = hi - 1
				if !td.HasDef {
					lo = lo + 1
				}
				ty.Add(S("range", fmt.Sprintf("%d..%d", lo, hi)))
				g.set.Probes["typedef_range_narrowed"] = true
			}
			def = fmt.Sprint(lo)
		case "string":
			if td.Hi-td.Lo > 2 && t.Coin() {
				lo := td.Lo
				if !td.HasDef {
					lo++
				}
				ty.Add(S("length", fmt.Sprintf("%d..%d", lo, td.Hi-1)))
			}
			def = strings.Repeat("d", td.Lo+1)
		case "enum":
			if len(td.Enums) > 0 {
				def = td.Enums[0]
			}
		case "identityref":
			def = g.idValue(m, td)
		}
		if td.Mod != m {
			g.set.Probes["imported_typedef_used"] = true
		}
		return ty, def
	}
	switch t.Pick(4, 4, 2, 2, 1, 1, 1, 1, 1, 1) {
	case 0:
		ty := S("type", "string")
		def := "dflt"
		if t.Coin() {
			ty.Add(S("length", "1..20"))
		}
		if t.Rare(3) {
			ty.Add(S("pattern", "[a-z]+"))
			if t.Rare(3) {
				ty.Add(S("pattern", "[a-z0-9]*"))
			}
		}
		return ty, def
	case 1:
		it := intTypes[t.Draw(len(intTypes))]
		ty := S("type", it.n)
		lo := it.lo
		if t.Coin() {
			lo = it.lo / 2
			if lo == 0 {
				lo = 1
			}
			ty.Add(S("range", fmt.Sprintf("%d..%d", lo, it.hi/2)))
		}
		return ty, fmt.Sprint(lo)
	case 2:
		return S("type", "boolean"), "true"
	case 3:
		ty := S("type", "enumeration")
		n := 2 + t.Draw(3)
		for i := 0; i < n; i++ {
			e := S("enum", fmt.Sprintf("e%d", i))
			if t.Rare(3) {
				e.Add(S("value", fmt.Sprint(i*10)))
			}
			ty.Add(e)
		}
		return ty, "e0"
	case 4:
		ty := S("type", "decimal64", S("fraction-digits", "2"))
		if t.Coin() {
			ty.Add(S("range", "1.5..10.25"))
		}
		return ty, "2.5"
	case 5:
		return S("type", "empty"), ""
	case 6:
		if depth > 1 {
			return S("type", "string"), "u"
		}
		ty := S("type", "union")
		for n := 2 + t.Draw(2); n > 0; n-- {
			mt, _ := g.typeStmt(m, depth+2)
			if mt.Arg == "empty" || mt.Arg == "leafref" {
				mt = S("type", "int8")
			}
			ty.Add(mt)
		}
		return ty, ""
	case 7:
		var cands []struct {
			m *Module
			n string
		}
		for _, v := range g.visible(m) {
			for _, in := range v.Identities {
				cands = append(cands, struct {
					m *Module
					n string
				}{v, in})
			}
		}
		if len(cands) == 0 {
			return S("type", "string"), "s"
		}
		c := cands[t.Draw(len(cands))]
		g.set.Probes["identityref"] = true
		return S("type", "identityref", S("base", g.ref(m, c.m, c.n))), ""
	case 8:
		ty := S("type", "bits")
		for i := 0; i < 2+t.Draw(2); i++ {
			ty.Add(S("bit", fmt.Sprintf("b%d", i), S("position", fmt.Sprint(i))))
		}
		return ty, ""
	default:
		return S("type", "instance-identifier"), ""
	}
}

// idValue spells the identity that a typedef of identityref type can take as value, as seen from module m.
func (g *gen) idValue(m *Module, td *TypeDef) string {
	if td.IdMod == nil {
		return ""
	}
	if g.owner(td.IdMod) == g.owner(m) {
		if g.t.Rare(3) && !m.Sub {
			return m.Prefix + ":" + td.IdName
		}
		return td.IdName
	}
	return g.pfx(m, td.IdMod) + ":" + td.IdName
}

func (g *gen) typedefs(m *Module) {
	t := g.t
	for n := g.times(3, t.Draw(4)); n > 0; n-- {
		td := &TypeDef{Name: g.defName("t"), Mod: m}
		var ty *Stmt
		def := ""
		// chain onto an earlier typedef (local or imported) or start from a builtin
		var tds []*TypeDef
		for _, v := range g.visible(m) {
			tds = append(tds, v.Typedefs...)
		}
		if len(tds) > 0 && t.Coin() {
			b := tds[t.Draw(len(tds))]
			ty = S("type", g.ref(m, b.Mod, b.Name))
			td.Base, td.Lo, td.Hi, td.Enums, td.HasDef = b.Base, b.Lo, b.Hi, b.Enums, b.HasDef
			switch b.Base {
			case "int":
				if td.Hi-td.Lo > 6 && t.Coin() {
					td.Hi = td.Hi - 2
					if !b.HasDef {
						td.Lo = td.Lo + 2
					}
					ty.Add(S("range", fmt.Sprintf("%d..%d", td.Lo, td.Hi)))
				}
				def = fmt.Sprint(td.Lo)
			case "string":
				if td.Hi-td.Lo > 4 && t.Coin() {
					td.Hi = td.Hi - 1
					if !b.HasDef {
						td.Lo = td.Lo + 1
					}
					ty.Add(S("length", fmt.Sprintf("%d..%d", td.Lo, td.Hi)))
				}
				def = strings.Repeat("d", td.Lo+1)
			case "enum":
				if len(td.Enums) > 0 {
					def = td.Enums[0]
				}
			case "identityref":
				td.IdName, td.IdMod = b.IdName, b.IdMod
				def = g.idValue(m, td)
				g.set.Probes["typedef_chain_ending_in_identityref"] = true
			}
			g.set.Probes["typedef_chain"] = true
			if b.Mod != m {
				g.set.Probes["typedef_chain_cross_module"] = true
			}
		} else {
			kind := t.Draw(3)
			// an identityref typedef when the module sees an identity that has a derived identity (a usable value)
			type idp struct {
				base, val string
				bm, vm    *Module
			}
			var ids []idp
			if t.Rare(3) {
				for _, v := range g.visible(m) {
					for d, b := range v.IdBase {
						ids = append(ids, idp{b.n, d, b.m, v})
					}
				}
				sort.Slice(ids, func(i, j int) bool { return ids[i].val+ids[i].vm.Name < ids[j].val+ids[j].vm.Name })
			}
			if len(ids) > 0 {
				kind = 3
			}
			switch kind {
			case 3:
				c := ids[t.Draw(len(ids))]
				td.Base, td.IdName, td.IdMod = "identityref", c.val, c.vm
				ty = S("type", "identityref", S("base", g.ref(m, c.bm, c.base)))
				def = g.idValue(m, td)
				g.set.Probes["typedef_of_identityref"] = true
			case 0:
				it := intTypes[t.Draw(len(intTypes))]
				td.Base, td.Lo, td.Hi = "int", it.lo/2, it.hi/2
				if td.Lo == 0 {
					td.Lo = 1
				}
				ty = S("type", it.n, S("range", fmt.Sprintf("%d..%d", td.Lo, td.Hi)))
				def = fmt.Sprint(td.Lo)
			case 1:
				td.Base, td.Lo, td.Hi = "string", 1, 30
				ty = S("type", "string", S("length", "1..30"))
				def = "dd"
			case 2:
				td.Base = "enum"
				ty = S("type", "enumeration")
				for i := 0; i < 3; i++ {
					e := fmt.Sprintf("v%d", i)
					td.Enums = append(td.Enums, e)
					ty.Add(S("enum", e))
				}
				def = "v0"
			}
		}
		st := S("typedef", td.Name, ty)
		if def != "" && t.Coin() {
			st.Add(S("default", def))
			td.HasDef = true
		}
		m.Root.Add(st)
		m.Typedefs = append(m.Typedefs, td)
	}
}

func (g *gen) ifFeature(m *Module) *Stmt {
	var cands []struct {
		m *Module
		n string
	}
	for _, v := range g.visible(m) {
		for _, fn := range v.Features {
			cands = append(cands, struct {
				m *Module
				n string
			}{v, fn})
		}
	}
	if len(cands) == 0 || !g.t.Rare(4) {
		return nil
	}
	c := cands[g.t.Draw(len(cands))]
	return S("if-feature", g.ref(m, c.m, c.n))
}

func (g *gen) leaf(m *Module, parent *DNode, plain bool) *DNode {
	t := g.t
	n := &DNode{Kind: "leaf", Name: g.name("l"), Mod: m, Parent: parent, Config: true}
	ty, def := g.typeStmt(m, 0)
	n.Stmt = S("leaf", n.Name, ty)
	if plain {
		return n
	}
	switch t.Draw(5) {
	case 1:
		if def != "" {
			n.Stmt.Add(S("default", def))
		}
	case 2:
		n.Stmt.Add(S("mandatory", "true"))
	}
	if t.Rare(5) {
		n.Stmt.Add(S("description", []string{"a leaf; with \"quotes\" and a\nsecond line", "Größe in °C — «quoted» + 😀", "+1", "+é", "名前 /* not a comment */ // nor this", "tab\there", "ends with backslash \\"}[t.Draw(7)]))
	}
	if t.Rare(8) {
		n.Stmt.Add(S("units", []string{"°C", "µs", "m/s", "+dBm", "Ω", "+°C", "%"}[t.Draw(7)]))
	}
	if t.Rare(6) {
		n.Stmt.Add(S("status", []string{"current", "deprecated", "obsolete"}[t.Draw(3)]))
	}
	n.Stmt.Add(g.ifFeature(m))
	return n
}

func (g *gen) xpathFor(m *Module, n *DNode) string {
	// an expression over siblings
	var sib []*DNode
	if n.Parent != nil {
		for _, k := range n.Parent.Kids {
			if k != n && (k.Kind == "leaf" || k.Kind == "leaf-list") {
				sib = append(sib, k)
			}
		}
	}
	t := g.t
	if len(sib) == 0 {
		return []string{"true()", "1 = 1", "string-length('a') > 0", "not(false())"}[t.Draw(4)]
	}
	s := sib[t.Draw(len(sib))]
	nm := s.Name
	if t.Rare(3) && !m.Sub {
		nm = m.Prefix + ":" + s.Name
	}
	switch t.Draw(5) {
	case 0:
		return "../" + nm + " = 'x'"
	case 1:
		return "count(../" + nm + ") > 0"
	case 2:
		return "current()/../" + nm + " != 3 or ../" + nm
	case 3:
		return "not(../" + nm + ") and true()"
	default:
		return "../" + nm
	}
}

func (g *gen) dataNode(m *Module, parent *DNode, depth int) *DNode {
	t := g.t
	kind := t.Pick(4, 3, 2, 2, 1, 1)
	if depth >= 3 && kind != 0 && kind != 3 {
		kind = 0
	}
	switch kind {
	case 0:
		n := g.leaf(m, parent, false)
		if parent != nil {
			// now and then the leaf is a leafref to an earlier sibling leaf (relative path) or to any leaf of the
			// module reached so far (absolute path); sometimes with require-instance
			var sib []*DNode
			for _, k := range parent.Kids {
				if k.Kind == "leaf" && k.Mod == m && k.Stmt != nil && k.Stmt.Find("if-feature") == nil {
					sib = append(sib, k)
				}
			}
			if len(sib) > 0 && t.Rare(4) && n.Stmt.Find("default") == nil {
				k := sib[t.Draw(len(sib))]
				if t.Coin() {
					// chains of leafrefs: prefer a sibling that is a leafref itself
					for _, x := range sib {
						if x.LrHops > k.LrHops {
							k = x
						}
					}
				}
				path := "../" + k.Name
				switch t.Draw(10) {
				case 1:
					path = "../" + m.Prefix + ":" + k.Name
				case 2:
					path = g.schemaPath(m, k)
				case 3:
					path = "../" + k.Name + "/../" + k.Name
				}
				lr := S("type", "leafref", S("path", path))
				if t.Rare(16) {
					lr.Add(S("require-instance", []string{"true", "false"}[t.Draw(2)]))
				}
				n.Stmt.Kids[0] = lr
				n.LrHops = k.LrHops + 1
				g.set.Probes["leafref"] = true
				if n.LrHops >= 3 {
					g.set.Probes["leafref_chain_of_3_or_more"] = true
				}
			}
			parent.Kids = append(parent.Kids, n)
		}
		if len(m.Extensions) > 0 && t.Rare(6) {
			// an extension statement of a visible module on the leaf
			n.Stmt.Add(S(m.Prefix+":"+m.Extensions[t.Draw(len(m.Extensions))], "x"))
			g.set.Probes["extension_used"] = true
		}
		if t.Rare(5) {
			n.Stmt.Add(S("must", g.xpathFor(m, n)))
			g.set.Probes["must"] = true
		}
		if t.Rare(7) {
			n.Stmt.Add(S("when", g.xpathFor(m, n)))
			g.set.Probes["when"] = true
		}
		return n
	case 1:
		n := &DNode{Kind: "container", Name: g.name("c"), Mod: m, Parent: parent, Config: true}
		n.Stmt = S("container", n.Name)
		if parent != nil {
			parent.Kids = append(parent.Kids, n)
		}
		if t.Rare(4) {
			n.Stmt.Add(S("presence", "p"))
		}
		if t.Rare(6) {
			n.Stmt.Add(S("config", "false"))
			n.Config = false
		}
		n.Stmt.Add(g.ifFeature(m))
		g.fill(m, n, depth+1)
		if t.Rare(5) {
			n.Stmt.Add(S("must", g.xpathFor(m, n), S("error-message", "bad")))
		}
		return n
	case 2:
		n := &DNode{Kind: "list", Name: g.name("ls"), Mod: m, Parent: parent, Config: true}
		n.Stmt = S("list", n.Name)
		if parent != nil {
			parent.Kids = append(parent.Kids, n)
		}
		nk := 1 + t.Draw(2)
		var keys []string
		for i := 0; i < nk; i++ {
			k := &DNode{Kind: "leaf", Name: g.name("k"), Mod: m, Parent: n, Config: true}
			k.Stmt = S("leaf", k.Name, S("type", []string{"string", "uint16", "int32"}[t.Draw(3)]))
			n.Kids = append(n.Kids, k)
			keys = append(keys, k.Name)
		}
		n.Stmt.Add(S("key", strings.Join(keys, " ")))
		for _, k := range n.Kids {
			n.Stmt.Add(k.Stmt)
		}
		g.fill(m, n, depth+1)
		// unique over non-key leaves
		var leaves []string
		for _, k := range n.Kids[nk:] {
			if k.Kind == "leaf" && k.Stmt.Find("default") == nil {
				leaves = append(leaves, k.Name)
			}
		}
		if len(leaves) > 0 && t.Rare(3) {
			n.Stmt.Add(S("unique", leaves[0]))
		}
		if t.Rare(4) {
			n.Stmt.Add(S("min-elements", "1"))
			n.Stmt.Add(S("max-elements", "5"))
		}
		if t.Rare(5) {
			n.Stmt.Add(S("ordered-by", "user"))
		}
		return n
	case 3:
		n := &DNode{Kind: "leaf-list", Name: g.name("ll"), Mod: m, Parent: parent, Config: true}
		ty, _ := g.typeStmt(m, 0)
		if ty.Arg == "empty" {
			ty = S("type", "string")
		}
		n.Stmt = S("leaf-list", n.Name, ty)
		if parent != nil {
			parent.Kids = append(parent.Kids, n)
		}
		if t.Rare(4) {
			n.Stmt.Add(S("max-elements", "3"))
		}
		return n
	case 4:
		n := &DNode{Kind: "choice", Name: g.name("ch"), Mod: m, Parent: parent, Config: true}
		n.Stmt = S("choice", n.Name)
		if parent != nil {
			parent.Kids = append(parent.Kids, n)
		}
		firstCase := ""
		for i := 0; i < 2+t.Draw(2); i++ {
			if t.Coin() {
				// shorthand case: a bare leaf/container
				l := g.leaf(m, n, true)
				n.Kids = append(n.Kids, l)
				n.Stmt.Add(l.Stmt)
				if firstCase == "" {
					firstCase = l.Name
				}
				g.set.Probes["shorthand_case"] = true
			} else {
				cs := &DNode{Kind: "case", Name: g.name("cs"), Mod: m, Parent: n, Config: true}
				cs.Stmt = S("case", cs.Name)
				n.Kids = append(n.Kids, cs)
				for j := 0; j < 1+t.Draw(2); j++ {
					l := g.leaf(m, cs, true)
					if t.Coin() {
						l.Stmt.Add(S("default", "x"))
						l.Stmt.Kids[0] = S("type", "string")
					}
					cs.Kids = append(cs.Kids, l)
					cs.Stmt.Add(l.Stmt)
				}
				n.Stmt.Add(cs.Stmt)
				if firstCase == "" {
					firstCase = cs.Name
				}
			}
		}
		if t.Rare(3) {
			n.Stmt.Add(S("default", firstCase))
			g.set.Probes["choice_default"] = true
		} else if t.Rare(5) {
			n.Stmt.Add(S("mandatory", "true"))
		}
		return n
	default:
		// uses of a visible grouping, with optional refine/augment
		var gs []*Grouping
		for _, v := range g.visible(m) {
			gs = append(gs, v.Groupings...)
		}
		if len(gs) == 0 {
			return g.dataNode(m, parent, 3)
		}
		gr := gs[t.Draw(len(gs))]
		// avoid using the same grouping twice under one parent (duplicate siblings)
		if parent != nil {
			for _, k := range parent.Stmt.Kids {
				if k.Kw == "uses" && strings.HasSuffix(k.Arg, gr.Name) {
					return g.dataNode(m, parent, 3)
				}
			}
		}
		u := S("uses", g.ref(m, gr.Mod, gr.Name))
		n := &DNode{Kind: "uses", Name: gr.Name, Mod: m, Parent: parent, Stmt: u}
		g.set.Probes["uses"] = true
		if gr.Mod != m {
			g.set.Probes["uses_imported_grouping"] = true
		}
		// refine a leaf of the grouping
		for _, gn := range gr.Nodes {
			if gn.Kind == "leaf" && t.Rare(3) && gn.Stmt.Find("mandatory") == nil && gn.Stmt.Find("default") == nil {
				rf := S("refine", gn.Name, S("description", "refined"))
				switch t.Draw(5) {
				case 1:
					rf = S("refine", gn.Name, S("mandatory", "true"))
				case 2:
					rf = S("refine", gn.Name, S("config", "false"))
				case 3:
					rf = S("refine", gn.Name, S("must", "true()"))
				case 4:
					rf = S("refine", gn.Name, S("description", "refined"), S("reference", "r"))
				}
				u.Add(rf)
				g.set.Probes["refine"] = true
				break
			}
		}
		for _, gn := range gr.Nodes {
			if gn.Kind == "container" && t.Rare(3) {
				l := g.leaf(m, nil, true)
				u.Add(S("augment", gn.Name, l.Stmt))
				g.set.Probes["uses_augment"] = true
				break
			}
		}
		if parent != nil {
			// the grouping's nodes appear under parent with the using module's namespace
			for _, gn := range gr.Nodes {
				c := &DNode{Kind: gn.Kind, Name: gn.Name, Mod: m, Parent: parent, Config: gn.Config, Stmt: gn.Stmt}
				parent.Kids = append(parent.Kids, c)
			}
		}
		return n
	}
}

func (g *gen) fill(m *Module, n *DNode, depth int) {
	for k := 1 + g.t.Draw(3); k > 0; k-- {
		c := g.dataNode(m, n, depth)
		n.Stmt.Add(c.Stmt)
	}
}

func (g *gen) groupings(m *Module) {
	t := g.t
	for n := g.times(4, t.Draw(3)); n > 0; n-- {
		gr := &Grouping{Name: g.defName("g"), Mod: m}
		st := S("grouping", gr.Name)
		holder := &DNode{Kind: "grouping", Name: gr.Name, Mod: m, Stmt: st}
		// register only after filling so that a grouping cannot use itself
		for k := 1 + t.Draw(3); k > 0; k-- {
			c := g.dataNode(m, holder, 1)
			st.Add(c.Stmt)
		}
		for _, k := range holder.Kids {
			k.Parent = nil
			gr.Nodes = append(gr.Nodes, k)
		}
		if t.Rare(4) {
			// grouping-local typedef
			st.Kids = append([]*Stmt{S("typedef", g.name("lt"), S("type", "uint8"))}, st.Kids...)
		}
		m.Root.Add(st)
		m.Groupings = append(m.Groupings, gr)
	}
}

func (g *gen) data(m *Module) {
	for k := g.t.Draw(4); k > 0; k-- {
		c := g.dataNode(m, nil, 0)
		if c.Kind == "uses" {
			// top-level uses: expanded nodes become top-level nodes of m
			m.Root.Add(c.Stmt)
			continue
		}
		m.Root.Add(c.Stmt)
		m.Top = append(m.Top, c)
	}
	if g.t.Rare(8) && !m.Sub {
		// a container with a chain of leafrefs: l0 <- l1 <- ... <- ln (n up to 6), declared in a drawn order,
		// one of them possibly with a default (which has to be checked against the type at the end of the chain)
		t := g.t
		c := &DNode{Kind: "container", Name: g.name("lrc"), Mod: m, Config: true}
		c.Stmt = S("container", c.Name)
		n := 2 + t.Draw(5)
		names := make([]string, n+1)
		for i := range names {
			names[i] = g.name("lr")
		}
		stmts := []*Stmt{S("leaf", names[0], S("type", []string{"string", "uint8", "boolean"}[t.Draw(3)]))}
		for i := 1; i <= n; i++ {
			st := S("leaf", names[i], S("type", "leafref", S("path", "../"+names[i-1])))
			stmts = append(stmts, st)
		}
		for _, i := range t.Perm(len(stmts)) {
			c.Stmt.Add(stmts[i])
			c.Kids = append(c.Kids, &DNode{Kind: "leaf", Name: stmts[i].Arg, Mod: m, Parent: c, Config: true, Stmt: stmts[i]})
		}
		m.Root.Add(c.Stmt)
		m.Top = append(m.Top, c)
		g.set.Probes["leafref_chain_of_3_or_more"] = true
	}
}

// schemaPath renders the absolute schema node identifier of n as seen from m.
func (g *gen) schemaPath(m *Module, n *DNode) string {
	var chain []*DNode
	for x := n; x != nil; x = x.Parent {
		chain = append(chain, x)
	}
	var b strings.Builder
	for i := len(chain) - 1; i >= 0; i-- {
		pfx := g.pfx(m, chain[i].Mod)
		b.WriteString("/" + pfx + ":" + chain[i].Name)
	}
	return b.String()
}

func (g *gen) containersOf(m *Module) []*DNode {
	var out []*DNode
	var walk func(n *DNode)
	walk = func(n *DNode) {
		if n.Kind == "container" || n.Kind == "list" {
			out = append(out, n)
		}
		if n.Kind == "choice" || n.Kind == "case" {
			return
		}
		for _, k := range n.Kids {
			walk(k)
		}
	}
	for _, n := range m.Top {
		walk(n)
	}
	return out
}

// choicesOf lists the choice and case nodes of m's data tree (targets for augments that add a case / fill a case).
func (g *gen) choicesOf(m *Module) []*DNode {
	var out []*DNode
	var walk func(n *DNode)
	walk = func(n *DNode) {
		if n.Kind == "choice" || n.Kind == "case" {
			out = append(out, n)
		}
		for _, k := range n.Kids {
			walk(k)
		}
	}
	for _, n := range m.Top {
		walk(n)
	}
	return out
}

func (g *gen) augments(m *Module) {
	t := g.t
	if m.Sub {
		return // this compiler does not resolve a submodule's own prefix in augment paths
	}
	for _, v := range g.visible(m) {
		cs := g.containersOf(v)
		if len(cs) == 0 || !t.Rare(3) {
			continue
		}
		target := cs[t.Draw(len(cs))]
		a := S("augment", g.schemaPath(m, target))
		own := g.owner(m)
		for k := 1 + t.Draw(2); k > 0; k-- {
			var c *DNode
			if t.Coin() {
				c = g.leaf(own, target, true)
			} else {
				c = &DNode{Kind: "container", Name: g.name("ac"), Mod: own, Parent: target, Config: target.Config}
				c.Stmt = S("container", c.Name, g.leaf(own, c, true).Stmt)
				g.set.Probes["augment_adds_container"] = true
			}
			target.Kids = append(target.Kids, c)
			a.Add(c.Stmt)
		}
		if t.Rare(4) {
			a.Add(S("when", "true()"))
		}
		if f := g.ifFeature(m); f != nil && t.Rare(3) {
			a.Add(f)
		}
		if t.Rare(5) {
			// the augment also brings a leaf-list, a list or a choice
			switch t.Draw(3) {
			case 0:
				a.Add(S("leaf-list", g.name("all"), S("type", "string")))
			case 1:
				k := g.name("ak")
				a.Add(S("list", g.name("als"), S("key", k), S("leaf", k, S("type", "string"))))
			case 2:
				a.Add(S("choice", g.name("ach"), S("leaf", g.name("al"), S("type", "string")), S("case", g.name("acs"), S("leaf", g.name("al"), S("type", "int8")))))
			}
			g.set.Probes["augment_adds_list_or_choice"] = true
		}
		if target.Mod != own {
			g.set.Probes["augment_cross_module"] = true
		}
		if strings.HasPrefix(target.Name, "ac") {
			g.set.Probes["augment_onto_augment"] = true
		}
		m.Root.Add(a)
	}
	// augment a choice (with a new case or a shorthand leaf) or a case (with one more leaf)
	for _, v := range g.visible(m) {
		chs := g.choicesOf(v)
		if len(chs) == 0 || !t.Rare(5) {
			continue
		}
		target := chs[t.Draw(len(chs))]
		a := S("augment", g.schemaPath(m, target))
		own := g.owner(m)
		if target.Kind == "choice" && t.Coin() {
			cs := &DNode{Kind: "case", Name: g.name("acs"), Mod: own, Parent: target, Config: true}
			l := g.leaf(own, cs, true)
			cs.Stmt = S("case", cs.Name, l.Stmt)
			cs.Kids = append(cs.Kids, l)
			target.Kids = append(target.Kids, cs)
			a.Add(cs.Stmt)
		} else {
			l := g.leaf(own, target, true)
			target.Kids = append(target.Kids, l)
			a.Add(l.Stmt)
		}
		g.set.Probes["augment_of_choice_or_case"] = true
		m.Root.Add(a)
	}
}

func (g *gen) deviations(m *Module) {
	t := g.t
	for _, v := range g.visible(m) {
		if g.owner(v) == g.owner(m) || v.Sub || !t.Rare(4) {
			continue
		}
		// deviate a leaf of an imported module
		var leaves []*DNode
		for _, c := range g.containersOf(v) {
			for _, k := range c.Kids {
				if k.Kind == "leaf" && k.Mod == v && !strings.HasPrefix(k.Name, "k") {
					leaves = append(leaves, k)
				}
			}
		}
		if len(leaves) == 0 {
			continue
		}
		l := leaves[t.Draw(len(leaves))]
		d := S("deviation", g.schemaPath(m, l))
		switch t.Draw(3) {
		case 0:
			d.Add(S("deviate", "not-supported"))
		case 1:
			if l.Stmt.Find("description") == nil {
				d.Add(S("deviate", "add", S("units", "widgets")))
			} else {
				d.Add(S("deviate", "not-supported"))
			}
		case 2:
			d.Add(S("deviate", "replace", S("type", "string")))
		}
		if t.Rare(3) {
			// other properties a deviation may touch
			d.Kids = d.Kids[:0]
			switch t.Draw(6) {
			case 0:
				d.Add(S("deviate", "replace", S("config", "false")))
			case 1:
				d.Add(S("deviate", "add", S("must", "true()")))
			case 2:
				d.Add(S("deviate", "replace", S("mandatory", []string{"true", "false"}[t.Draw(2)])))
			case 3:
				d.Add(S("deviate", "add", S("default", "1")))
			case 4:
				d.Add(S("deviate", "delete", S("units", "widgets")))
			case 5:
				d.Add(S("deviate", "replace", S("type", "uint8")), S("deviate", "add", S("units", "u")))
			}
			g.set.Probes["deviation_of_other_properties"] = true
		}
		g.set.Probes["deviation"] = true
		m.Root.Add(d)
	}
}

// clusters creates the shapes in which the ORDER of processing can matter:
// several modules deviating, or augmenting, one and the same node.
func (g *gen) clusters() {
	t := g.t
	if len(g.mods) < 3 || !t.Rare(3) {
		return
	}
	// target: a leaf (with a default when possible) in a container of the first module
	base := g.mods[0]
	var leaves []*DNode
	for _, c := range g.containersOf(base) {
		for _, k := range c.Kids {
			if k.Kind == "leaf" && k.Mod == base && k.Stmt != nil && !strings.HasPrefix(k.Name, "k") && k.Stmt.Find("if-feature") == nil {
				leaves = append(leaves, k)
			}
		}
	}
	var importers []*Module
	for _, m := range g.mods[1:] {
		for _, v := range g.visible(m) {
			if v == base {
				importers = append(importers, m)
				break
			}
		}
	}
	if len(importers) < 2 {
		return
	}
	if len(leaves) > 0 && t.Coin() {
		l := leaves[t.Draw(len(leaves))]
		// make the leaf an int32 with a default so that replace/add/delete of default are all meaningful
		l.Stmt.Kids = []*Stmt{S("type", "int32")}
		hasDef := t.Coin()
		if hasDef {
			l.Stmt.Add(S("default", "5"))
		}
		n := 2
		if len(importers) > 2 && t.Coin() {
			n = 3
		}
		subCluster := t.Rare(3) // the deviators are submodules of one new module instead (below)
		if subCluster {
			n = 0
		}
		for i := 0; i < n; i++ {
			m := importers[i]
			d := S("deviation", g.schemaPath(m, l))
			val := fmt.Sprint(100 * (i + 1))
			switch {
			case hasDef && t.Draw(3) > 0:
				d.Add(S("deviate", "replace", S("default", val)))
			case hasDef:
				d.Add(S("deviate", "delete", S("default", "5")))
			case i == 0 || t.Coin():
				d.Add(S("deviate", "add", S("default", val)))
			default:
				d.Add(S("deviate", "replace", S("default", val)))
			}
			m.Root.Add(d)
		}
		g.set.Probes["deviation_cluster_same_node"] = true
		if subCluster {
			// the same, but the deviators are SUBMODULES of one new module (the pinned tree ignores
			// deviations written in submodules; a tree that learns to apply them meets two of them on one node)
			dm := &Module{Name: g.name("dvm"), Prefix: g.name("pdv"), Imports: []*Module{base}}
			dm.Root = S("module", dm.Name, S("namespace", "urn:"+dm.Name), S("prefix", dm.Prefix), S("import", base.Name, S("prefix", base.Prefix)))
			var subs []*Module
			pairKind := t.Draw(2)
			for i := 0; i < 2+t.Draw(2); i++ {
				sm := &Module{Name: g.name("dvs"), Prefix: dm.Prefix, Sub: true, BelongsTo: dm.Name, Imports: []*Module{base}}
				sm.Root = S("submodule", sm.Name, S("belongs-to", dm.Name, S("prefix", dm.Prefix)), S("import", base.Name, S("prefix", base.Prefix)))
				d := S("deviation", g.schemaPath(sm, l))
				val := fmt.Sprint(1000 * (i + 1))
				// pairs that do not commute: two different replacements of the type (the later one wins),
				// or add-then-replace of the default (the other order has nothing to replace)
				switch {
				case pairKind == 0:
					d.Add(S("deviate", "replace", S("type", []string{"int8", "uint32", "string"}[i%3])))
				case hasDef:
					d.Add(S("deviate", "replace", S("default", val)))
				case i == 0:
					d.Add(S("deviate", "add", S("default", val)))
				default:
					d.Add(S("deviate", "replace", S("default", val)))
				}
				sm.Root.Add(d)
				dm.Root.Add(S("include", sm.Name))
				subs = append(subs, sm)
			}
			g.mods = append(g.mods, dm)
			g.all = append(g.all, dm)
			g.all = append(g.all, subs...)
			g.set.Probes["deviation_cluster_in_submodules"] = true
		}
		return
	}
	cs := g.containersOf(base)
	if len(cs) == 0 {
		return
	}
	c := cs[t.Draw(len(cs))]
	same := t.Rare(3)
	nm := g.name("al")
	for i := 0; i < 2; i++ {
		m := importers[i]
		n := nm
		if !same {
			n = g.name("al")
		}
		a := S("augment", g.schemaPath(m, c), S("leaf", n, S("type", []string{"string", "int8"}[i])))
		m.Root.Add(a)
	}
	g.set.Probes["augment_cluster_same_node"] = true
	if same {
		g.set.Probes["augment_cluster_same_name_different_namespace"] = true
	}
}

// ---------------------------------------------------------------------------
// ill-formedness operators

func (g *gen) topLevel(kw string) []struct {
	m *Module
	s *Stmt
} {
	var out []struct {
		m *Module
		s *Stmt
	}
	for _, m := range g.set.Mods {
		for _, k := range m.Root.Kids {
			if k.Kw == kw {
				out = append(out, struct {
					m *Module
					s *Stmt
				}{m, k})
			}
		}
	}
	return out
}

// addLinkage inserts an import/include where the grammar allows it (header).
func addLinkage(m *Module, st *Stmt) {
	i := 0
	for i < len(m.Root.Kids) {
		switch m.Root.Kids[i].Kw {
		case "namespace", "prefix", "belongs-to", "yang-version", "import", "include":
			i++
			continue
		}
		break
	}
	m.Root.Kids = append(m.Root.Kids[:i:i], append([]*Stmt{st}, m.Root.Kids[i:]...)...)
}

func (g *gen) breakSomething() {
	t := g.t
	op := t.Draw(34)
	if op >= 30 {
		op = 23
	} else if op >= 28 {
		op = 22
	} else if op >= 22 {
		op = 3 + (op-22)%3 // the reference-cycle shapes (typedefs, identities, features) get three times the weight of the other operators
	}
	mods := g.mods
	m := mods[t.Draw(len(mods))]
	g.set.Touched = append(g.set.Touched, m)
	switch op {
	case 0: // import cycle
		if len(mods) >= 2 {
			a, b := mods[0], mods[len(mods)-1]
			addLinkage(a, S("import", b.Name, S("prefix", b.Prefix)))
			if b.Root.Find("import") == nil || t.Coin() {
				addLinkage(b, S("import", a.Name, S("prefix", "zz"+a.Prefix)))
			}
			g.set.Ops = append(g.set.Ops, "import-cycle")
			return
		}
		addLinkage(m, S("import", m.Name, S("prefix", "self")))
		g.set.Ops = append(g.set.Ops, "import-self")
	case 1: // include cycle
		var subs []*Module
		for _, x := range g.set.Mods {
			if x.Sub {
				subs = append(subs, x)
			}
		}
		if len(subs) >= 2 && subs[0].BelongsTo == subs[1].BelongsTo {
			addLinkage(subs[0], S("include", subs[1].Name))
			addLinkage(subs[1], S("include", subs[0].Name))
			g.set.Ops = append(g.set.Ops, "include-cycle")
		} else if len(subs) >= 1 {
			addLinkage(subs[0], S("include", subs[0].Name))
			g.set.Ops = append(g.set.Ops, "include-self")
		} else {
			addLinkage(m, S("include", "nosuchsub"))
			g.set.Ops = append(g.set.Ops, "dangling-include")
		}
	case 2: // grouping cycle
		if t.Coin() {
			// a cycle inside a submodule, reached from a grouping of the including module
			for _, sm := range g.set.Mods {
				if !sm.Sub {
					continue
				}
				own := g.owner(sm)
				a, b, c := g.name("gcy"), g.name("gcy"), g.name("gcy")
				sm.Root.Add(S("grouping", a, S("uses", b)))
				if t.Coin() {
					sm.Root.Add(S("grouping", b, S("container", g.name("c"), S("uses", c))), S("grouping", c, S("uses", a)))
				} else {
					sm.Root.Add(S("grouping", b, S("uses", a)))
				}
				if t.Draw(3) > 0 {
					own.Root.Add(S("grouping", g.name("gen"), S("leaf", g.name("l"), S("type", "string")), S("uses", []string{a, b}[t.Draw(2)])))
				}
				g.set.Ops = append(g.set.Ops, "grouping-cycle-in-submodule")
				return
			}
		}
		if t.Coin() {
			tail, cyc := t.Draw(3), 1+t.Draw(3)
			n := tail + cyc
			names := make([]string, n)
			for i := range names {
				names[i] = g.name("gcy")
			}
			var defs []*Stmt
			for i := range names {
				nx := names[tail]
				if i+1 < n {
					nx = names[i+1]
				}
				u := S("uses", nx)
				if t.Coin() {
					u = S("container", g.name("c"), u)
				}
				defs = append(defs, S("grouping", names[i], S("leaf", g.name("l"), S("type", "string")), u))
			}
			for _, i := range t.Perm(len(defs)) {
				m.Root.Add(defs[i])
			}
			if t.Coin() {
				m.Root.Add(S("container", g.name("c"), S("uses", names[0])))
			}
			g.set.Ops = append(g.set.Ops, "grouping-cycle", fmt.Sprintf("shape:tail%d-cycle%d", tail, cyc))
			return
		}
		gs := g.topLevel("grouping")
		if len(gs) >= 2 {
			a, b := gs[0], gs[t.Draw(len(gs))]
			if a.m == b.m {
				a.s.Add(S("uses", b.s.Arg))
				b.s.Add(S("uses", a.s.Arg))
				g.set.Ops = append(g.set.Ops, "grouping-cycle")
				return
			}
		}
		if len(gs) >= 1 {
			gs[0].s.Add(S("container", g.name("gc"), S("uses", gs[0].s.Arg)))
			g.set.Ops = append(g.set.Ops, "grouping-self-cycle")
			return
		}
		m.Root.Add(S("grouping", "gself", S("uses", "gself")))
		g.set.Ops = append(g.set.Ops, "grouping-self-cycle")
	case 3, 4, 5: // typedef / identity / feature reference graphs of every cyclic shape
		// shape: a chain of `tail` definitions leading into a cycle of `cyc` definitions (tail 0 = plain cycle,
		// cyc 1 = self reference); definitions are emitted in a drawn order, optionally with a user of the chain
		tail, cyc := t.Draw(3), 1+t.Draw(3)
		if t.Rare(10) {
			// long chains and long cycles (dozens to hundreds of definitions)
			tail += t.Draw(40)
			cyc += t.Draw(300)
			g.set.Probes["long_reference_cycle"] = true
		}
		n := tail + cyc
		names := make([]string, n)
		pfx := map[int]string{3: "tc", 4: "idc", 5: "fc"}[op]
		for i := range names {
			names[i] = g.name(pfx)
		}
		next := func(i int) string {
			if i+1 < n {
				return names[i+1]
			}
			return names[tail] // close the cycle
		}
		var defs []*Stmt
		for i := range names {
			switch op {
			case 3:
				// a typedef in the chain may be declared in a nested scope user (container) later; here top-level
				ty := S("type", next(i))
				if t.Rare(3) {
					// the link goes through a member of a union (now and then of a union inside a union)
					ms := []*Stmt{ty, S("type", []string{"string", "int8", "boolean"}[t.Draw(3)])}
					if t.Coin() {
						ms[0], ms[1] = ms[1], ms[0]
					}
					ty = S("type", "union", ms...)
					if t.Rare(3) {
						ty = S("type", "union", S("type", "uint8"), ty)
					}
					g.set.Probes["typedef_cycle_link_through_union"] = true
				}
				defs = append(defs, S("typedef", names[i], ty))
			case 4:
				defs = append(defs, S("identity", names[i], S("base", next(i)))) // (this parser allows one base per identity)
			case 5:
				defs = append(defs, S("feature", names[i], S("if-feature", next(i))))
			}
		}
		order := t.Perm(len(defs))
		target := m.Root
		if op == 3 && t.Rare(3) {
			// typedefs scoped inside a container or grouping
			target = S([]string{"container", "grouping"}[t.Draw(2)], g.name("sc"))
			m.Root.Add(target)
		}
		for _, i := range order {
			target.Add(defs[i])
		}
		if t.Coin() {
			switch op {
			case 3:
				if t.Rare(3) {
					target.Add(S("leaf", g.name("l"), S("type", "union", S("type", "int8"), S("type", names[0]))))
				} else {
					target.Add(S([]string{"leaf", "leaf-list"}[t.Draw(2)], g.name("l"), S("type", names[0])))
				}
			case 4:
				m.Root.Add(S("leaf", g.name("l"), S("type", "identityref", S("base", names[0]))))
			case 5:
				m.Root.Add(S("leaf", g.name("l"), S("type", "string"), S("if-feature", names[0])))
				own := g.owner(m).Name
				g.set.Features = append(g.set.Features, own+":"+names[0])
			}
		}
		g.set.Ops = append(g.set.Ops, fmt.Sprintf("%s-cycle", map[int]string{3: "typedef", 4: "identity", 5: "feature"}[op]))
		g.set.Ops = append(g.set.Ops, fmt.Sprintf("shape:tail%d-cycle%d", tail, cyc))
	case 6:
		m.Root.Add(S("leaf", g.name("l"), S("type", "nosuchtype")))
		g.set.Ops = append(g.set.Ops, "dangling-type")
	case 7:
		m.Root.Add(S("container", g.name("c"), S("uses", "nosuchgrouping")))
		g.set.Ops = append(g.set.Ops, "dangling-uses")
	case 8:
		m.Root.Add(S("leaf", g.name("l"), S("type", "string"), S("if-feature", "nosuchfeature")))
		g.set.Ops = append(g.set.Ops, "dangling-if-feature")
	case 9:
		m.Root.Add(S("identity", g.name("id"), S("base", "nosuchidentity")))
		g.set.Ops = append(g.set.Ops, "dangling-base")
	case 10:
		m.Root.Add(S("leaf", g.name("l"), S("type", "zz:t1")))
		g.set.Ops = append(g.set.Ops, "unknown-prefix")
	case 11:
		addLinkage(m, S("import", "nosuchmodule", S("prefix", "nsm")))
		g.set.Ops = append(g.set.Ops, "dangling-import")
	case 12: // duplicate sibling produced only after expansion
		gn := g.name("gd")
		ln := g.name("l")
		m.Root.Add(S("grouping", gn, S("leaf", ln, S("type", "string"))))
		m.Root.Add(S("container", g.name("c"), S("uses", gn), S("leaf", ln, S("type", "int8"))))
		g.set.Ops = append(g.set.Ops, "duplicate-after-uses")
	case 13: // augment adds an existing name
		cs := g.containersOf(m)
		if len(cs) > 0 && len(cs[0].Kids) > 0 {
			tg := cs[0]
			m.Root.Add(S("augment", g.schemaPath(m, tg), S("leaf", tg.Kids[0].Name, S("type", "string"))))
			g.set.Ops = append(g.set.Ops, "duplicate-after-augment")
		} else {
			m.Root.Add(S("augment", "/"+m.Prefix+":nosuchnode", S("leaf", g.name("l"), S("type", "string"))))
			g.set.Ops = append(g.set.Ops, "dangling-augment")
		}
	case 14: // bad default / bad narrowing
		if t.Coin() {
			m.Root.Add(S("leaf", g.name("l"), S("type", "uint8"), S("default", "300")))
			g.set.Ops = append(g.set.Ops, "bad-default")
		} else {
			tn := g.name("t")
			m.Root.Add(S("typedef", tn, S("type", "int8", S("range", "0..10"))), S("leaf", g.name("l"), S("type", tn, S("range", "5..20"))))
			g.set.Ops = append(g.set.Ops, "bad-range-widening")
		}
	case 23: // constructs of YANG 1.1 that this parser rejects today (a tree that learns one of them is compiled with them; on the pinned tree these sets end at the parser)
		{
			f := g.name("f11")
			m.Root.Add(S("feature", f))
			own := g.owner(m).Name
			if t.Coin() {
				g.set.Features = append(g.set.Features, own+":"+f)
			}
			switch t.Pick(4, 1, 1, 1, 1, 1) {
			case 0: // if-feature on an identity at the top of a chain of derived identities, identityref on the bottom
				n := 1 + t.Draw(3)
				names := make([]string, n+1)
				for i := range names {
					names[i] = g.name("id11")
				}
				defs := []*Stmt{S("identity", names[0], S("if-feature", f))}
				for i := 1; i <= n; i++ {
					defs = append(defs, S("identity", names[i], S("base", names[i-1])))
				}
				for _, i := range t.Perm(len(defs)) {
					m.Root.Add(defs[i])
				}
				ref := names[n]
				if t.Rare(3) {
					ref = names[t.Draw(len(names))]
				}
				m.Root.Add(S("leaf", g.name("l"), S("type", "identityref", S("base", ref))))
				g.set.Ops = append(g.set.Ops, "yang11-if-feature-on-identity")
			case 1: // if-feature on enum / bit
				m.Root.Add(S("leaf", g.name("l"), S("type", "enumeration", S("enum", "a"), S("enum", "b", S("if-feature", f))), S("default", []string{"a", "b"}[t.Draw(2)])))
				m.Root.Add(S("leaf", g.name("l"), S("type", "bits", S("bit", "x", S("if-feature", f)), S("bit", "y"))))
				g.set.Ops = append(g.set.Ops, "yang11-if-feature-on-enum-or-bit")
			case 2: // identity with two bases
				a, b, c := g.name("id11"), g.name("id11"), g.name("id11")
				m.Root.Add(S("identity", a), S("identity", b), S("identity", c, S("base", a), S("base", b)))
				m.Root.Add(S("leaf", g.name("l"), S("type", "identityref", S("base", []string{a, b}[t.Draw(2)]))))
				g.set.Ops = append(g.set.Ops, "yang11-identity-with-two-bases")
			case 3: // leaf-list defaults, if-feature expression
				m.Root.Add(S("leaf-list", g.name("ll"), S("type", "string"), S("default", "a"), S("default", "b"), S("if-feature", f+" or not "+f)))
				g.set.Ops = append(g.set.Ops, "yang11-leaf-list-default")
			case 4: // action and notification inside a container, must under input
				m.Root.Add(S("container", g.name("c"), S("action", g.name("act"), S0("input", S("must", "true()"), S("leaf", g.name("l"), S("type", "string")))), S("notification", g.name("n"), S("leaf", g.name("l"), S("type", "string")))))
				g.set.Ops = append(g.set.Ops, "yang11-action")
			default: // anydata, pattern modifier, if-feature on refine
				m.Root.Add(S("anydata", g.name("ad")), S("leaf", g.name("l"), S("type", "string", S("pattern", "[a-z]+", S("modifier", "invert-match")))))
				g.set.Ops = append(g.set.Ops, "yang11-anydata-modifier")
			}
		}
	case 22: // a module or submodule refers to its OWN definitions through its own prefix (in a submodule: the belongs-to prefix), plainly or as one step of a cycle
		{
			target := m
			for _, x := range g.set.Mods {
				if x.Sub && t.Coin() {
					target = x
					break
				}
			}
			g.set.Touched = append(g.set.Touched, target)
			pfx := target.Prefix
			a, b := g.name("own"), g.name("own")
			switch t.Draw(4) {
			case 0: // grouping cycle, one step prefixed
				target.Root.Add(S("grouping", a, S("leaf", g.name("l"), S("type", "string")), S("uses", b)))
				target.Root.Add(S("grouping", b, S("uses", pfx+":"+a)))
				if t.Coin() {
					target.Root.Add(S("container", g.name("c"), S("uses", []string{a, pfx + ":" + b}[t.Draw(2)])))
				}
				g.set.Ops = append(g.set.Ops, "own-prefix-grouping-cycle")
			case 1: // typedef cycle, one step prefixed
				target.Root.Add(S("typedef", a, S("type", b)))
				target.Root.Add(S("typedef", b, S("type", pfx+":"+a)))
				if t.Coin() {
					target.Root.Add(S("leaf", g.name("l"), S("type", []string{a, pfx + ":" + b}[t.Draw(2)])))
				}
				g.set.Ops = append(g.set.Ops, "own-prefix-typedef-cycle")
			case 2: // identity cycle, one step prefixed
				target.Root.Add(S("identity", a, S("base", b)))
				target.Root.Add(S("identity", b, S("base", pfx+":"+a)))
				g.set.Ops = append(g.set.Ops, "own-prefix-identity-cycle")
			default: // plain, legal references through the own prefix
				target.Root.Add(S("grouping", a, S("leaf", g.name("l"), S("type", "string"))))
				target.Root.Add(S("typedef", b, S("type", "int8")))
				target.Root.Add(S("container", g.name("c"), S("uses", pfx+":"+a), S("leaf", g.name("l"), S("type", pfx+":"+b))))
				g.set.Ops = append(g.set.Ops, "own-prefix-references")
			}
			if target.Sub {
				g.set.Probes["own_prefix_used_in_submodule"] = true
			}
		}
	case 21: // identities with the SAME local name in different modules, derived from one base (legal YANG)
		{
			mk := func(name, pfx string) *Module {
				m := &Module{Name: name, Prefix: pfx}
				m.Root = S("module", name, S("namespace", "urn:"+name), S("prefix", pfx))
				return m
			}
			ba := mk(g.name("ia"), g.name("pia"))
			bb := mk(g.name("ib"), g.name("pib"))
			bc := mk(g.name("ic"), g.name("pic"))
			ba.Root.Add(S("identity", "speed"), S("identity", "slow", S("base", "speed")))
			if t.Coin() {
				ba.Root.Add(S("identity", "fast", S("base", "speed")))
			}
			for _, m := range []*Module{bb, bc} {
				m.Root.Add(S("import", ba.Name, S("prefix", ba.Prefix)))
				m.Root.Add(S("identity", "fast", S("base", ba.Prefix+":speed")))
				if t.Coin() {
					m.Root.Add(S("identity", g.name("faster"), S("base", "fast")))
				}
			}
			user := []*Module{ba, bb, bc}[t.Draw(3)]
			base := "speed"
			if user != ba {
				base = ba.Prefix + ":speed"
			}
			lf := S("leaf", g.name("l"), S("type", "identityref", S("base", base)))
			if t.Coin() {
				lf.Add(S("default", []string{"slow", bb.Name + ":fast", bc.Name + ":fast", "fast"}[t.Draw(4)]))
			}
			user.Root.Add(lf)
			g.set.Mods = append(g.set.Mods, ba, bb, bc)
			g.all = append(g.all, ba, bb, bc)
			g.set.Ops = append(g.set.Ops, "same-identity-name-in-two-modules")
		}
	case 20: // the same prefix string ("dep") denotes different modules in two importers that contain textually identical references
		{
			mk := func(name, pfx string) *Module {
				m := &Module{Name: name, Prefix: pfx}
				m.Root = S("module", name, S("namespace", "urn:"+name), S("prefix", pfx))
				return m
			}
			na, nb := mk(g.name("na"), g.name("pa")), mk(g.name("nb"), g.name("pb"))
			nx, ny := mk(g.name("nx"), g.name("px")), mk(g.name("ny"), g.name("py"))
			nz := mk(g.name("nz"), g.name("pz"))
			// the two importers may be two SUBMODULES of one module (a submodule has an import table of its own)
			var nm *Module
			if t.Coin() {
				nm = mk(g.name("nm"), g.name("pm"))
				for _, sp := range []**Module{&nx, &ny} {
					sm := &Module{Name: g.name("ns"), Prefix: nm.Prefix, Sub: true, BelongsTo: nm.Name}
					sm.Root = S("submodule", sm.Name, S("belongs-to", nm.Name, S("prefix", nm.Prefix)))
					nm.Root.Add(S("include", sm.Name))
					*sp = sm
				}
				g.set.Probes["same_prefix_different_module_in_two_submodules"] = true
			} else if t.Coin() {
				// the clash is between a module and ITS OWN submodule: the module says "dep" for na, the submodule says "dep" for nb
				// (prefixes are local to a file). The import of nb exists only in the submodule; nb may import the module back, which
				// closes an import cycle that only the submodule's import table shows, and groupings may follow that cycle.
				nm = mk(g.name("nm"), g.name("pm"))
				sm := &Module{Name: g.name("ns"), Prefix: nm.Prefix, Sub: true, BelongsTo: nm.Name}
				sm.Root = S("submodule", sm.Name, S("belongs-to", nm.Name, S("prefix", nm.Prefix)))
				nm.Root.Add(S("import", na.Name, S("prefix", "dep")), S("include", sm.Name))
				sm.Root.Add(S("import", nb.Name, S("prefix", "dep")))
				na.Root.Add(S("grouping", "g", S("leaf", "from-a", S("type", "string"))))
				nb.Root.Add(S("grouping", "g", S("leaf", "from-b", S("type", "uint8"))))
				nm.Root.Add(S("container", g.name("c"), S("uses", "dep:g")))
				sm.Root.Add(S("container", g.name("c"), S("uses", "dep:g")))
				op := "prefix-clash-module-vs-own-submodule"
				if t.Draw(4) > 0 {
					addLinkage(nb, S("import", nm.Name, S("prefix", "back")))
					op += "+import-cycle-through-submodule-only"
					if t.Draw(4) > 0 {
						sm.Root.Add(S("grouping", "sg", S("uses", "dep:rg")))
						nb.Root.Add(S("grouping", "rg", S("uses", "back:sg")))
						op += "+grouping-cycle-along-it"
					}
				}
				g.set.Probes["prefix_clash_module_vs_own_submodule"] = true
				g.set.Mods = append(g.set.Mods, na, nb, nm, sm)
				g.all = append(g.all, na, nb, nm, sm)
				g.set.Ops = append(g.set.Ops, op)
				return
			}
			na.Root.Add(S("identity", "root"), S("feature", "fr"), S("grouping", "g", S("leaf", "from-a", S("type", "string"))), S("typedef", "t", S("type", "string")))
			bothDefine := t.Coin()
			if bothDefine {
				nb.Root.Add(S("identity", "root"), S("feature", "fr"), S("grouping", "g", S("leaf", "from-b", S("type", "uint8"))), S("typedef", "t", S("type", "uint8")))
			} else {
				nb.Root.Add(S("identity", "other"))
			}
			nx.Root.Add(S("import", na.Name, S("prefix", "dep")))
			ny.Root.Add(S("import", nb.Name, S("prefix", "dep")))
			var nzBody []*Stmt
			for i, m := range []*Module{nx, ny} {
				m.Root.Add(S("identity", fmt.Sprintf("derived%d", i), S("base", "dep:root")))
				if t.Coin() {
					m.Root.Add(S("feature", fmt.Sprintf("fd%d", i), S("if-feature", "dep:fr")))
				}
				// the same text "uses dep:g" / "type dep:t" in both importers, in data nodes and inside groupings that a third module uses
				switch t.Draw(2) {
				case 0:
					m.Root.Add(S("container", fmt.Sprintf("cdep%d", i), S("uses", "dep:g"), S("leaf", "lt", S("type", "dep:t"))))
				case 1:
					m.Root.Add(S("grouping", fmt.Sprintf("gdep%d", i), S("uses", "dep:g"), S("leaf", "lt", S("type", "dep:t"))))
					nzBody = append(nzBody, S("container", fmt.Sprintf("cuse%d", i), S("uses", m.Prefix+":"+fmt.Sprintf("gdep%d", i))))
				}
			}
			nz.Root.Add(S("import", na.Name, S("prefix", na.Prefix)), S("import", nb.Name, S("prefix", nb.Prefix)))
			if nm != nil {
				nz.Root.Add(S("import", nm.Name, S("prefix", nm.Prefix)))
				g.set.Mods = append(g.set.Mods, nm)
				g.all = append(g.all, nm)
			} else {
				nz.Root.Add(S("import", nx.Name, S("prefix", nx.Prefix)), S("import", ny.Name, S("prefix", ny.Prefix)))
			}
			nz.Root.Add(nzBody...)
			nz.Root.Add(S("leaf", g.name("l"), S("type", "identityref", S("base", na.Prefix+":root"))))
			if bothDefine {
				nz.Root.Add(S("leaf", g.name("l"), S("type", "identityref", S("base", nb.Prefix+":root"))))
			}
			g.set.Features = append(g.set.Features, na.Name+":fr")
			g.set.Mods = append(g.set.Mods, na, nb, nx, ny, nz)
			g.all = append(g.all, na, nb, nx, ny, nz)
			if bothDefine {
				g.set.Ops = append(g.set.Ops, "same-prefix-different-module-both-valid")
			} else {
				g.set.Ops = append(g.set.Ops, "same-prefix-different-module-one-dangling")
			}
		}
	case 19: // a definition (or an import) that is only reachable through a chain of includes x1 -> x2 -> x3
		{
			owner := m
			var other *Module
			for _, x := range mods {
				if x != owner {
					other = x
				}
			}
			x1 := &Module{Name: g.name("x"), Prefix: owner.Prefix, Sub: true, BelongsTo: owner.Name}
			x2 := &Module{Name: g.name("x"), Prefix: owner.Prefix, Sub: true, BelongsTo: owner.Name}
			x3 := &Module{Name: g.name("x"), Prefix: owner.Prefix, Sub: true, BelongsTo: owner.Name}
			for _, x := range []*Module{x1, x2, x3} {
				x.Root = S("submodule", x.Name, S("belongs-to", owner.Name, S("prefix", owner.Prefix)))
				addLinkage(owner, S("include", x.Name))
			}
			addLinkage(x1, S("include", x2.Name))
			addLinkage(x2, S("include", x3.Name))
			tn, gn := g.name("tq"), g.name("gq")
			x3.Root.Add(S("typedef", tn, S("type", "int16")), S("grouping", gn, S("leaf", g.name("l"), S("type", "string"))))
			switch t.Draw(3) {
			case 0:
				x1.Root.Add(S("leaf", g.name("l"), S("type", tn)))
			case 1:
				x1.Root.Add(S("container", g.name("c"), S("uses", gn)))
			case 2:
				if other != nil && other != owner {
					// x3 imports another module; x1 uses that prefix without importing it itself
					imported := false
					for _, k := range other.Root.Kids {
						if k.Kw == "import" && k.Arg == owner.Name {
							imported = true // would close an import cycle through the merged imports
						}
					}
					if !imported {
						addLinkage(x3, S("import", other.Name, S("prefix", "pq")))
						other.Root.Add(S("typedef", tn, S("type", "uint8")))
						x1.Root.Add(S("leaf", g.name("l"), S("type", "pq:"+tn)))
					}
				}
			}
			g.set.Mods = append(g.set.Mods, x1, x2, x3)
			g.all = append(g.all, x1, x2, x3)
			g.set.Ops = append(g.set.Ops, "reference-through-nested-include")
		}
	case 16: // the same top-level data node / rpc name in two different modules (different namespaces)
		if len(mods) >= 2 {
			a, b := mods[0], mods[len(mods)-1]
			nn := g.name("same")
			switch t.Draw(3) {
			case 0:
				a.Root.Add(S("container", nn, S("leaf", g.name("l"), S("type", "string"))))
				b.Root.Add(S("container", nn, S("leaf", g.name("l"), S("type", "int8"))))
			case 1:
				a.Root.Add(S("rpc", nn))
				b.Root.Add(S("rpc", nn))
			case 2:
				a.Root.Add(S("leaf", nn, S("type", "string")))
				b.Root.Add(S("notification", nn))
			}
			g.set.Ops = append(g.set.Ops, "same-top-level-name-in-two-modules")
			return
		}
		fallthrough
	case 17: // the same typedef / grouping name defined in two imported modules, used with both prefixes from a third
		if len(mods) >= 3 {
			a, b, c := mods[0], mods[1], mods[len(mods)-1]
			imports := func(m, x *Module) bool {
				for _, k := range m.Root.Kids {
					if k.Kw == "import" && k.Arg == x.Name {
						return true
					}
				}
				return false
			}
			if !imports(c, a) {
				addLinkage(c, g.importStmt(c, a))
			}
			if !imports(c, b) {
				addLinkage(c, g.importStmt(c, b))
			}
			tn, gn := g.name("tsame"), g.name("gsame")
			a.Root.Add(S("typedef", tn, S("type", "int8")), S("grouping", gn, S("leaf", g.name("l"), S("type", "string"))))
			b.Root.Add(S("typedef", tn, S("type", "string")), S("grouping", gn, S("leaf", g.name("l"), S("type", "boolean"))))
			c.Root.Add(S("container", g.name("c"),
				S("leaf", g.name("l"), S("type", g.pfx(c, a)+":"+tn)),
				S("leaf", g.name("l"), S("type", g.pfx(c, b)+":"+tn)),
				S("container", g.name("c"), S("uses", g.pfx(c, a)+":"+gn)),
				S("container", g.name("c"), S("uses", g.pfx(c, b)+":"+gn))))
			switch t.Draw(3) {
			case 1:
				// and a local definition of the same name, used unprefixed
				c.Root.Add(S("typedef", tn, S("type", "boolean")), S("leaf", g.name("l"), S("type", tn)))
			case 2:
				// the prefix forgotten: no local definition, two imported modules define the name
				c.Root.Add(S("leaf", g.name("l"), S("type", tn)))
				if t.Coin() {
					c.Root.Add(S("container", g.name("c"), S("uses", gn)))
				}
				g.set.Ops = append(g.set.Ops, "unprefixed-reference-to-imported-name")
			}
			g.set.Ops = append(g.set.Ops, "same-definition-name-in-two-imports")
			return
		}
		fallthrough
	case 18: // two independent errors in two different modules: which one is reported may depend on order, the verdict may not
		if len(mods) >= 2 {
			mods[0].Root.Add(S("leaf", g.name("l"), S("type", "nosuchtype")))
			mods[len(mods)-1].Root.Add(S("container", g.name("c"), S("uses", "nosuchgrouping")))
			g.set.Ops = append(g.set.Ops, "two-independent-errors")
			return
		}
		fallthrough
	case 15: // duplicate top-level name across two modules' augments or same module
		nn := g.name("dup")
		m.Root.Add(S("leaf", nn, S("type", "string")), S("container", nn))
		g.set.Ops = append(g.set.Ops, "duplicate-top-level")
	}
}

// Texts renders every module canonically, keyed by module name.
func (s *Set) Texts() map[string]string {
	out := map[string]string{}
	for _, m := range s.Mods {
		out[m.Name] = m.Root.Text()
	}
	for k, v := range s.Aliases {
		out[k] = v
	}
	return out
}
func (s *Set) Names() []string {
	var out []string
	for _, m := range s.Mods {
		out = append(out, m.Name)
	}
	var ks []string
	for k := range s.Aliases {
		ks = append(ks, k)
	}
	sort.Strings(ks)
	return append(out, ks...)
}
