// Package genyang draws YANG module sets from a tape. It serves two worlds:
// C07 (parsing: lexical variety, truncation/corruption as faults) and C11
// (compilation: semantic variety, reference cycles, dangling references).
package genyang

import (
	"strings"

	"verif/tape"
)

// Stmt is one YANG statement.
type Stmt struct {
	Kw    string
	Arg   string
	NoArg bool
	Kids  []*Stmt
}

func S(kw, arg string, kids ...*Stmt) *Stmt { return &Stmt{Kw: kw, Arg: arg, Kids: kids} }
func S0(kw string, kids ...*Stmt) *Stmt     { return &Stmt{Kw: kw, NoArg: true, Kids: kids} }

func (s *Stmt) Add(k ...*Stmt) *Stmt {
	for _, x := range k {
		if x != nil {
			s.Kids = append(s.Kids, x)
		}
	}
	return s
}

func (s *Stmt) Find(kw string) *Stmt {
	for _, k := range s.Kids {
		if k.Kw == kw {
			return k
		}
	}
	return nil
}

// Clone deep-copies a statement tree.
func (s *Stmt) Clone() *Stmt {
	c := &Stmt{Kw: s.Kw, Arg: s.Arg, NoArg: s.NoArg}
	for _, k := range s.Kids {
		c.Kids = append(c.Kids, k.Clone())
	}
	return c
}

func quoteArg(a string) string {
	var b strings.Builder
	b.WriteByte('"')
	for i := 0; i < len(a); i++ {
		switch a[i] {
		case '"':
			b.WriteString(`\"`)
		case '\\':
			b.WriteString(`\\`)
		case '\n':
			b.WriteString(`\n`)
		case '\t':
			b.WriteString(`\t`)
		default:
			b.WriteByte(a[i])
		}
	}
	b.WriteByte('"')
	return b.String()
}

// Text renders canonically: every argument double-quoted, two-space indent, LF.
func (s *Stmt) Text() string {
	var b strings.Builder
	s.render(&b, 0)
	return b.String()
}

func (s *Stmt) render(b *strings.Builder, ind int) {
	pad := strings.Repeat("  ", ind)
	b.WriteString(pad)
	b.WriteString(s.Kw)
	if !s.NoArg {
		b.WriteByte(' ')
		b.WriteString(quoteArg(s.Arg))
	}
	if len(s.Kids) == 0 {
		b.WriteString(";\n")
		return
	}
	b.WriteString(" {\n")
	for _, k := range s.Kids {
		k.render(b, ind+1)
	}
	b.WriteString(pad)
	b.WriteString("}\n")
}

func plainWord(a string) bool {
	if a == "" {
		return false
	}
	for i := 0; i < len(a); i++ {
		c := a[i]
		if c == ' ' || c == '\t' || c == '\n' || c == '\r' || c == ';' || c == '{' || c == '}' || c == '"' || c == '\'' || c == '+' {
			return false
		}
	}
	if strings.Contains(a, "//") || strings.Contains(a, "/*") || strings.Contains(a, "*/") {
		return false
	}
	return true
}

// Styled renders with lexical variety drawn from the tape: unquoted, single-
// and double-quoted arguments, '+' concatenation, multi-line strings, comments
// between tokens, CRLF, tabs, odd indentation.
func (s *Stmt) Styled(t *tape.Tape) string {
	var b strings.Builder
	st := &style{t: t, nl: "\n"}
	if t.Rare(6) {
		st.nl = "\r\n"
	}
	st.indent = []string{"  ", "\t", "    ", ""}[t.Draw(4)]
	st.comments = t.Draw(4) // 0 none .. 3 many
	s.styled(&b, st, 0)
	return b.String()
}

type style struct {
	t        *tape.Tape
	nl       string
	indent   string
	comments int
}

func (st *style) gap(b *strings.Builder) {
	// whitespace and maybe a comment between two tokens
	if st.comments > 0 && st.t.Draw(24) < st.comments {
		switch st.t.Draw(3) {
		case 0:
			b.WriteString(" /* c */ ")
		case 1:
			b.WriteString(" // note" + st.nl)
		case 2:
			b.WriteString(" /* multi" + st.nl + " line { ; \" */ ")
		}
		return
	}
	b.WriteString([]string{" ", "  ", "\t", " "}[st.t.Draw(4)])
}

func (st *style) arg(b *strings.Builder, a string, col int) {
	t := st.t
	mode := t.Draw(6)
	if mode <= 2 && plainWord(a) {
		b.WriteString(a)
		return
	}
	if mode == 3 && !strings.Contains(a, "'") {
		b.WriteByte('\'')
		b.WriteString(a)
		b.WriteByte('\'')
		return
	}
	if mode == 4 && len(a) >= 2 {
		// concatenation of two quoted pieces
		cut := 1 + t.Draw(len(a)-1)
		b.WriteString(quoteArg(a[:cut]))
		b.WriteString([]string{" + ", "+", st.nl + strings.Repeat(" ", col) + "+ "}[t.Draw(3)])
		b.WriteString(quoteArg(a[cut:]))
		return
	}
	b.WriteString(quoteArg(a))
}

func (s *Stmt) styled(b *strings.Builder, st *style, ind int) {
	pad := strings.Repeat(st.indent, ind)
	b.WriteString(pad)
	b.WriteString(s.Kw)
	if !s.NoArg {
		st.gap(b)
		st.arg(b, s.Arg, len(pad)+len(s.Kw)+1)
	}
	if len(s.Kids) == 0 {
		if st.t.Rare(10) {
			b.WriteString(" {}")
		} else {
			if st.t.Rare(8) {
				b.WriteString(" ")
			}
			b.WriteString(";")
		}
		b.WriteString(st.nl)
		return
	}
	st.gap(b)
	b.WriteString("{")
	if st.t.Rare(12) {
		b.WriteString(" ")
	} else {
		b.WriteString(st.nl)
	}
	for _, k := range s.Kids {
		k.styled(b, st, ind+1)
	}
	b.WriteString(pad)
	b.WriteString("}")
	b.WriteString(st.nl)
}

// Count returns the number of statements in the tree.
func (s *Stmt) Count() int {
	n := 1
	for _, k := range s.Kids {
		n += k.Count()
	}
	return n
}
