// Package genyang draws YANG module sets from a tape. It serves two worlds:
// C07 (parsing: lexical variety, truncation/corruption as faults) and C11
// (compilation: semantic variety, reference cycles, dangling references).
package genyang

import (
	"strings"

	"verif/tape"
)

// Stmt is one YANG statement.
type Stmt struct {
	Kw    string
	Arg   string
	NoArg bool
	Kids  []*Stmt
}

func S(kw, arg string, kids ...*Stmt) *Stmt { return &Stmt{Kw: kw, Arg: arg, Kids: kids} }
func S0(kw string, kids ...*Stmt) *Stmt     { return &Stmt{Kw: kw, NoArg: true, Kids: kids} }

func (s *Stmt) Add(k ...*Stmt) *Stmt {
	for _, x := range k {
		if x != nil {
			s.Kids = append(s.Kids, x)
		}
	}
	return s
}

func (s *Stmt) Find(kw string) *Stmt {
	for _, k := range s.Kids {
		if k.Kw == kw {
			return k
		}
	}
	return nil
}

// Clone deep-copies a statement tree.
func (s *Stmt) Clone() *Stmt {
	c := &Stmt{Kw: s.Kw, Arg: s.Arg, NoArg: s.NoArg}
	for _, k := range s.Kids {
		c.Kids = append(c.Kids, k.Clone())
	}
	return c
}

func quoteArg(a string) string {
	var b strings.Builder
	b.WriteByte('"')
	for i := 0; i < len(a); i++ {
		switch a[i] {
		case '"':
			b.WriteString(`\"`)
		case '\\':
			b.WriteString(`\\`)
		case '\n':
			b.WriteString(`\n`)
		case '\t':
			b.WriteString(`\t`)
		default:
			b.WriteByte(a[i])
		}
	}
	b.WriteByte('"')
	return b.String()
}

// Text renders canonically: every argument double-quoted, two-space indent, LF.
func (s *Stmt) Text() string {
	var b strings.Builder
	s.render(&b, 0)
	return b.String()
}

func (s *Stmt) render(b *strings.Builder, ind int) {
	pad := strings.Repeat("  ", ind)
	b.WriteString(pad)
	b.WriteString(s.Kw)
	if !s.NoArg {
		b.WriteByte(' ')
		b.WriteString(quoteArg(s.Arg))
	}
	if len(s.Kids) == 0 {
		b.WriteString(";\n")
		return
	}
	b.WriteString(" {\n")
	for _, k := range s.Kids {
		k.render(b, ind+1)
	}
	b.WriteString(pad)
	b.WriteString("}\n")
}

func plainWord(a string) bool {
	if a == "" {
		return false
	}
	for i := 0; i < len(a); i++ {
		c := a[i]
		if c == ' ' || c == '\t' || c == '\n' || c == '\r' || c == ';' || c == '{' || c == '}' || c == '"' || c == '\'' || c == '+' {
			return false
		}
	}
	if strings.Contains(a, "//") || strings.Contains(a, "/*") || strings.Contains(a, "*/") {
		return false
	}
	return true
}

// Styled renders with lexical variety drawn from the tape: unquoted, single-
// and double-quoted arguments, '+' concatenation, multi-line strings, comments
// between tokens, CRLF, tabs, odd indentation.
func (s *Stmt) Styled(t *tape.Tape) string {
	var b strings.Builder
	st := &style{t: t, nl: "\n"}
	if t.Rare(6) {
		st.nl = "\r\n"
	}
	st.indent = []string{"  ", "\t", "    ", ""}[t.Draw(4)]
	st.comments = t.Draw(4) // 0 none .. 3 many
	s.styled(&b, st, 0)
	return b.String()
}

type style struct {
	t        *tape.Tape
	nl       string
	indent   string
	comments int
}

func (st *style) gap(b *strings.Builder) {
	// whitespace and maybe a comment between two tokens
	if st.comments > 0 && st.t.Draw(24) < st.comments {
		switch st.t.Draw(3) {
		case 0:
			b.WriteString(" /* c */ ")
		case 1:
			b.WriteString(" // note" + st.nl)
		case 2:
			b.WriteString(" /* multi" + st.nl + " line { ; \" */ ")
		}
		return
	}
	b.WriteString([]string{" ", "  ", "\t", " "}[st.t.Draw(4)])
}

func (st *style) arg(b *strings.Builder, a string, col int) {
	t := st.t
	mode := t.Draw(6)
	if mode <= 2 && plainWord(a) {
		b.WriteString(a)
		return
	}
	if mode <= 2 && strings.Contains(a, "+") && plainWord(strings.ReplaceAll(a, "+", "x")) && t.Rare(3) {
		// a '+' inside or in front of an unquoted word (where it is not the concatenation operator)
		b.WriteString(a)
		return
	}
	if mode == 3 && !strings.Contains(a, "'") {
		b.WriteByte('\'')
		b.WriteString(a)
		b.WriteByte('\'')
		return
	}
	if mode == 4 && len(a) >= 2 {
		// concatenation of two quoted pieces
		cut := 1 + t.Draw(len(a)-1)
		b.WriteString(quoteArg(a[:cut]))
		b.WriteString([]string{" + ", "+", st.nl + strings.Repeat(" ", col) + "+ "}[t.Draw(3)])
		b.WriteString(quoteArg(a[cut:]))
		return
	}
	if strings.Contains(a, "\n") && t.Coin() {
		// a double-quoted string that really spans lines: continuation lines indented more, less or
		// exactly as far as the opening quote, with blanks or tabs, some with trailing blanks before the break
		lines := strings.Split(a, "\n")
		b.WriteByte('"')
		for i, ln := range lines {
			if i > 0 {
				if t.Rare(3) {
					b.WriteString([]string{" ", "\t", "  "}[t.Draw(3)])
				}
				b.WriteString(st.nl)
				switch t.Draw(4) {
				case 0:
					b.WriteString(strings.Repeat(" ", col+1))
				case 1:
					b.WriteString(strings.Repeat(" ", t.Draw(col+4)))
				case 2:
					b.WriteString(strings.Repeat("\t", 1+t.Draw(3)))
				}
			}
			q := quoteArg(ln)
			b.WriteString(q[1 : len(q)-1])
		}
		b.WriteByte('"')
		return
	}
	b.WriteString(quoteArg(a))
}

func (s *Stmt) styled(b *strings.Builder, st *style, ind int) {
	pad := strings.Repeat(st.indent, ind)
	b.WriteString(pad)
	b.WriteString(s.Kw)
	if !s.NoArg {
		st.gap(b)
		st.arg(b, s.Arg, len(pad)+len(s.Kw)+1)
	}
	if len(s.Kids) == 0 {
		if st.t.Rare(10) {
			b.WriteString(" {}")
		} else {
			if st.t.Rare(8) {
				b.WriteString(" ")
			}
			b.WriteString(";")
		}
		b.WriteString(st.nl)
		return
	}
	st.gap(b)
	b.WriteString("{")
	if st.t.Rare(12) {
		b.WriteString(" ")
	} else {
		b.WriteString(st.nl)
	}
	for _, k := range s.Kids {
		k.styled(b, st, ind+1)
	}
	b.WriteString(pad)
	b.WriteString("}")
	b.WriteString(st.nl)
}

// Count returns the number of statements in the tree.
func (s *Stmt) Count() int {
	n := 1
	for _, k := range s.Kids {
		n += k.Count()
	}
	return n
}

// all returns every statement of the tree with its parent (root has nil parent).
func (s *Stmt) all() (out []struct{ n, p *Stmt }) {
	var walk func(n, p *Stmt)
	walk = func(n, p *Stmt) {
		out = append(out, struct{ n, p *Stmt }{n, p})
		for _, k := range n.Kids {
			walk(k, n)
		}
	}
	walk(s, nil)
	return
}

var someKeywords = []string{"leaf", "container", "list", "type", "key", "belongs-to", "import", "include", "prefix", "namespace", "default", "mandatory", "config", "uses", "grouping", "typedef", "choice", "case", "augment", "must", "when", "range", "length", "pattern", "enum", "revision", "feature", "if-feature", "identity", "base", "unique", "min-elements", "max-elements", "ordered-by", "status", "description", "presence", "units", "value", "bit", "position", "path", "require-instance", "fraction-digits", "deviation", "deviate", "rpc", "input", "output", "notification", "refine", "extension", "argument", "yin-element", "yang-version", "organization", "contact", "reference", "revision-date", "submodule", "module", "anyxml", "leaf-list", "error-message", "error-app-tag", "ex:ext"}

var typedArg = map[string]bool{"value": true, "position": true, "min-elements": true, "max-elements": true, "fraction-digits": true, "range": true, "length": true, "revision": true, "revision-date": true, "mandatory": true, "config": true, "require-instance": true, "yin-element": true, "ordered-by": true, "status": true, "yang-version": true, "key": true, "unique": true, "path": true}

var argGarbles = []string{"", " ", "1..", "..", "a b", "a  b", "|", "1|", "/", "/a/", "a:", ":a", "2020-13-45", "202-01-01", "-", "0x10", "min..max|", "é", "a\"b", "current()", "../", "[", "true ", "1e3", "9999999999999999999999", "*", "a/b/", "p:"}

// ArgSweep returns, for every keyword of the tree whose argument has a grammar of
// its own (numbers, ranges, dates, booleans, keys, paths), the texts in which ONE
// statement of that keyword (drawn) carries each of the garbled arguments in turn:
// the whole product keyword x garble for this module, rendered canonically.
// maxBytes bounds the total size of the texts returned.
func (s *Stmt) ArgSweep(t *tape.Tape, maxBytes int) (texts []string, kws []string) {
	c := s.Clone()
	nodes := c.all()
	byKw := map[string][]*Stmt{}
	for _, y := range nodes {
		if typedArg[y.n.Kw] && !y.n.NoArg {
			if _, ok := byKw[y.n.Kw]; !ok {
				kws = append(kws, y.n.Kw)
			}
			byKw[y.n.Kw] = append(byKw[y.n.Kw], y.n)
		}
	}
	total := 0
	for _, kw := range kws {
		l := byKw[kw]
		x := l[t.Draw(len(l))]
		old := x.Arg
		gs := argGarbles
		if numberArg[kw] {
			gs = append(append([]string{}, argGarbles...), numberGarbles...)
		}
		if dateArg[kw] {
			gs = append(append([]string{}, argGarbles...), dateGarbles...)
		}
		for _, g := range gs {
			x.Arg = g
			txt := c.Text()
			if total += len(txt); total > maxBytes {
				x.Arg = old
				return texts, kws
			}
			texts = append(texts, txt)
		}
		x.Arg = old
	}
	return texts, kws
}

// every field of a date one below its least and one above its greatest value, alone and together, and the shapes next to the right one
var dateArg = map[string]bool{"revision": true, "revision-date": true}
var dateGarbles = []string{"2019-00-01", "2019-01-00", "2019-00-00", "0000-00-00", "0000-01-01", "2019-13-01", "2019-12-32", "2019-02-29", "2020-02-29", "2019-02-30", "2019-04-31", "9999-99-99", "2019-1-1", "2019-01-1", "19-01-01", "02019-01-01", "2019-001-01", "2019-01-001", "20190101", "2019/01/01", "2019-01-01-", "2019-01-01 ", " 2019-01-01", "2019--1-01", "2019-+1-01", "2019-01-+1", "2019-01--1", "+019-01-01", "-019-01-01", "2019-0x-01", "２０１９-01-01", "2019-01-01T00:00:00Z"}

var numberArg = map[string]bool{"value": true, "position": true, "min-elements": true, "max-elements": true, "fraction-digits": true, "range": true, "length": true}
var numberGarbles = []string{"-", "+", "-0", "+1", "--1", "1-", "- 1", "01", "0x", "0x1F", "1_000", "1e3", "1.", ".5", "-.", "4294967296", "-2147483649", "18446744073709551616", "unbounded ", "max", "min", "0..", "..0", "1..2..3", "1 | | 2", "|", "-1..-2"}

// DamageStructure applies one statement-level operator to a clone of the tree:
// drop / duplicate / move a whole statement, swap two siblings, change a
// keyword, clear or garble an argument. The text stays lexically and
// syntactically well-formed; cardinality, ordering and argument rules break.
func (s *Stmt) DamageStructure(t *tape.Tape) (*Stmt, string) {
	c := s.Clone()
	nodes := c.all()
	if len(nodes) < 2 {
		return c, "none"
	}
	pick := func() struct{ n, p *Stmt } { return nodes[1+t.Draw(len(nodes)-1)] }
	remove := func(x struct{ n, p *Stmt }) {
		for i, k := range x.p.Kids {
			if k == x.n {
				x.p.Kids = append(x.p.Kids[:i:i], x.p.Kids[i+1:]...)
				return
			}
		}
	}
	// statements whose absence code tends to take for granted
	mandatory := map[string]bool{"belongs-to": true, "namespace": true, "prefix": true, "type": true, "key": true, "path": true, "base": true, "fraction-digits": true, "value": true, "position": true, "input": true, "output": true, "deviate": true, "revision-date": true}
	switch t.Draw(7) {
	case 0:
		x := pick()
		if t.Draw(5) >= 2 {
			var m []struct{ n, p *Stmt }
			for _, y := range nodes[1:] {
				if mandatory[y.n.Kw] {
					m = append(m, y)
				}
			}
			// header statements of the (sub)module first: they are few and decide how everything else is read
			var top []struct{ n, p *Stmt }
			for _, y := range m {
				if y.p == c {
					top = append(top, y)
				}
			}
			if len(top) > 0 && t.Coin() {
				x = top[t.Draw(len(top))]
			} else if len(m) > 0 {
				x = m[t.Draw(len(m))]
			}
		}
		remove(x)
		return c, "stmt-drop:" + x.n.Kw
	case 1:
		x := pick()
		x.p.Kids = append(x.p.Kids, x.n.Clone())
		return c, "stmt-dup:" + x.n.Kw
	case 2:
		x := pick()
		dst := nodes[t.Draw(len(nodes))].n
		inside := false
		for _, d := range x.n.all() {
			if d.n == dst {
				inside = true
			}
		}
		if inside {
			return c, "none"
		}
		remove(x)
		dst.Kids = append(dst.Kids, x.n)
		return c, "stmt-move:" + x.n.Kw + "->" + dst.Kw
	case 3:
		x := pick()
		if len(x.p.Kids) >= 2 {
			i, j := t.Draw(len(x.p.Kids)), t.Draw(len(x.p.Kids))
			x.p.Kids[i], x.p.Kids[j] = x.p.Kids[j], x.p.Kids[i]
		}
		return c, "stmt-swap"
	case 4:
		x := nodes[t.Draw(len(nodes))]
		old := x.n.Kw
		x.n.Kw = someKeywords[t.Draw(len(someKeywords))]
		return c, "keyword:" + old + "->" + x.n.Kw
	case 5:
		x := nodes[t.Draw(len(nodes))]
		x.n.NoArg = !x.n.NoArg
		return c, "arg-toggle:" + x.n.Kw
	default:
		x := nodes[t.Draw(len(nodes))]
		if t.Coin() {
			// statements whose argument has its own little grammar (numbers, ranges, dates, booleans, paths):
			// first a keyword among those present (so that the rare ones get their share), then one of its statements
			byKw := map[string][]struct{ n, p *Stmt }{}
			var kws []string
			for _, y := range nodes {
				if typedArg[y.n.Kw] {
					if _, ok := byKw[y.n.Kw]; !ok {
						kws = append(kws, y.n.Kw)
					}
					byKw[y.n.Kw] = append(byKw[y.n.Kw], y)
				}
			}
			if len(kws) > 0 {
				l := byKw[kws[t.Draw(len(kws))]]
				x = l[t.Draw(len(l))]
				if numberArg[x.n.Kw] && t.Coin() {
					x.n.Arg = numberGarbles[t.Draw(len(numberGarbles))]
					return c, "arg-garble:" + x.n.Kw
				}
			}
		}
		x.n.Arg = argGarbles[t.Draw(len(argGarbles))]
		return c, "arg-garble:" + x.n.Kw
	}
}
