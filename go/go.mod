module verif

go 1.26

require github.com/sdcio/yang-parser v0.0.0

replace github.com/sdcio/yang-parser => ../repo
