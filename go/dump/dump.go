// Package dump renders a compiled schema.ModelSet canonically by reflection
// over the whole object graph (exported and unexported fields alike), so that
// "the complete compiled schema" means everything the compiler stored, not the
// attributes somebody remembered to list.
//
// Rules: maps are rendered sorted by key; pointers are followed, a pointer that
// is already on the current path is rendered as an up-reference (parent links);
// functions are rendered as present/absent (closures cannot be compared) and
// xpath machines by expression + location + instruction listing; compiled
// regular expressions by their source. Slices are rendered in the order given,
// except — in canonical mode — the collections to which YANG attaches no order
// (listed in Unordered), which are rendered sorted by their rendered elements.
package dump

import (
	"fmt"
	"reflect"
	"sort"
	"strings"
)

// Unordered lists struct fields (type name "." field name) holding slices whose
// order has no YANG meaning. They are filled by ranging over Go maps in the
// compiler, so their order legitimately varies from run to run.
var Unordered = map[string]bool{
	"schema.model.features":         true, // Model.Features(): enabled features of a module
	"schema.model.deviations":       true, // Model.Deviations(): names of deviating modules
	"schema.node.choices":           true, // Node.Choices(): choice children of a node (siblings)
	"schema.identityref.identities": true, // Identityref.Identities(): the set of identities derived from the base(s)
}

type dumper struct {
	b         strings.Builder
	canonical bool
	stack     []uintptr
	limit     int
	over      bool
	// in canonical mode: which unordered fields needed sorting to be equal (filled by caller comparing strict dumps)
}

// Dump renders v. canonical=false keeps every slice in the order given.
func Dump(v any, canonical bool) (string, bool) {
	d := &dumper{canonical: canonical, limit: 32 << 20}
	d.val(reflect.ValueOf(v), 0, "")
	return d.b.String(), !d.over
}

func (d *dumper) ind(n int) {
	for i := 0; i < n; i++ {
		d.b.WriteByte(' ')
	}
}

func typeName(t reflect.Type) string {
	s := t.String()
	s = strings.TrimPrefix(s, "*")
	return s
}

func (d *dumper) val(v reflect.Value, depth int, ctx string) {
	if d.over {
		return
	}
	if d.b.Len() > d.limit {
		d.over = true
		return
	}
	if !v.IsValid() {
		d.b.WriteString("<invalid>\n")
		return
	}
	switch v.Kind() {
	case reflect.Bool:
		fmt.Fprintf(&d.b, "%v\n", v.Bool())
	case reflect.Int, reflect.Int8, reflect.Int16, reflect.Int32, reflect.Int64:
		fmt.Fprintf(&d.b, "%d\n", v.Int())
	case reflect.Uint, reflect.Uint8, reflect.Uint16, reflect.Uint32, reflect.Uint64, reflect.Uintptr:
		fmt.Fprintf(&d.b, "%d\n", v.Uint())
	case reflect.Float32, reflect.Float64:
		fmt.Fprintf(&d.b, "%v\n", v.Float())
	case reflect.String:
		fmt.Fprintf(&d.b, "%q\n", v.String())
	case reflect.Func:
		if v.IsNil() {
			d.b.WriteString("<nil func>\n")
		} else {
			d.b.WriteString("<func>\n")
		}
	case reflect.Chan, reflect.UnsafePointer:
		d.b.WriteString("<" + v.Kind().String() + ">\n")
	case reflect.Interface:
		if v.IsNil() {
			d.b.WriteString("<nil>\n")
			return
		}
		d.val(v.Elem(), depth, ctx)
	case reflect.Ptr:
		if v.IsNil() {
			d.b.WriteString("<nil>\n")
			return
		}
		p := v.Pointer()
		for i := len(d.stack) - 1; i >= 0; i-- {
			if d.stack[i] == p {
				fmt.Fprintf(&d.b, "<up %d %s>\n", len(d.stack)-i, typeName(v.Type()))
				return
			}
		}
		if v.Type().String() == "*regexp.Regexp" {
			e := v.Elem().FieldByName("expr")
			fmt.Fprintf(&d.b, "regexp %q\n", e.String())
			return
		}
		d.stack = append(d.stack, p)
		d.b.WriteString("&")
		d.val(v.Elem(), depth, ctx)
		d.stack = d.stack[:len(d.stack)-1]
	case reflect.Struct:
		tn := typeName(v.Type())
		if tn == "xpath.Machine" {
			d.machine(v, depth)
			return
		}
		fmt.Fprintf(&d.b, "%s{\n", tn)
		for i := 0; i < v.NumField(); i++ {
			f := v.Type().Field(i)
			d.ind(depth + 1)
			d.b.WriteString(f.Name + ": ")
			d.val(v.Field(i), depth+1, tn+"."+f.Name)
		}
		d.ind(depth)
		d.b.WriteString("}\n")
	case reflect.Map:
		if v.IsNil() {
			d.b.WriteString("map<nil>\n")
			return
		}
		p := v.Pointer()
		for i := len(d.stack) - 1; i >= 0; i-- {
			if d.stack[i] == p {
				fmt.Fprintf(&d.b, "<up %d map>\n", len(d.stack)-i)
				return
			}
		}
		d.stack = append(d.stack, p)
		type kv struct {
			k string
			v reflect.Value
		}
		var kvs []kv
		it := v.MapRange()
		for it.Next() {
			sub := &dumper{canonical: d.canonical, limit: 1 << 20}
			sub.val(it.Key(), 0, "")
			kvs = append(kvs, kv{strings.TrimSpace(sub.b.String()), it.Value()})
		}
		sort.Slice(kvs, func(i, j int) bool { return kvs[i].k < kvs[j].k })
		fmt.Fprintf(&d.b, "map[%d]{\n", len(kvs))
		for _, e := range kvs {
			d.ind(depth + 1)
			d.b.WriteString(e.k + " => ")
			d.val(e.v, depth+1, ctx+"[]")
		}
		d.ind(depth)
		d.b.WriteString("}\n")
		d.stack = d.stack[:len(d.stack)-1]
	case reflect.Slice, reflect.Array:
		if v.Kind() == reflect.Slice && v.IsNil() {
			d.b.WriteString("[]<nil>\n")
			return
		}
		n := v.Len()
		if d.canonical && Unordered[ctx] && n > 1 {
			items := make([]string, n)
			for i := 0; i < n; i++ {
				sub := &dumper{canonical: true, limit: d.limit, stack: d.stack}
				sub.val(v.Index(i), depth+1, ctx+"[]")
				items[i] = sub.b.String()
				if sub.over {
					d.over = true
				}
			}
			sort.Strings(items)
			fmt.Fprintf(&d.b, "unordered[%d]{\n", n)
			for _, s := range items {
				d.ind(depth + 1)
				d.b.WriteString(s)
			}
			d.ind(depth)
			d.b.WriteString("}\n")
			return
		}
		if v.Type().Elem().Kind() == reflect.Uint8 {
			bs := make([]byte, n)
			for i := 0; i < n; i++ {
				bs[i] = byte(v.Index(i).Uint())
			}
			fmt.Fprintf(&d.b, "bytes %q\n", bs)
			return
		}
		fmt.Fprintf(&d.b, "[%d]{\n", n)
		for i := 0; i < n; i++ {
			d.ind(depth + 1)
			d.val(v.Index(i), depth+1, ctx+"[]")
		}
		d.ind(depth)
		d.b.WriteString("}\n")
	default:
		fmt.Fprintf(&d.b, "<%s>\n", v.Kind())
	}
}

func (d *dumper) machine(v reflect.Value, depth int) {
	str := func(name string) string {
		f := v.FieldByName(name)
		if f.IsValid() && f.Kind() == reflect.String {
			return f.String()
		}
		return ""
	}
	fmt.Fprintf(&d.b, "xpath.Machine{expr=%q location=%q name=%q prog=[", str("refExpr"), str("location"), str("name"))
	prog := v.FieldByName("prog")
	if prog.IsValid() && prog.Kind() == reflect.Slice {
		for i := 0; i < prog.Len(); i++ {
			in := prog.Index(i)
			fn := in.FieldByName("fnName")
			sm := in.FieldByName("subMachine")
			if fn.IsValid() {
				fmt.Fprintf(&d.b, "%q", fn.String())
			}
			if sm.IsValid() && sm.String() != "" {
				fmt.Fprintf(&d.b, "(%q)", sm.String())
			}
			d.b.WriteString(" ")
		}
	}
	d.b.WriteString("]}\n")
}

// FirstDiff locates the first differing line of two dumps and returns a short
// description with the enclosing attribute path.
func FirstDiff(a, b string) (path string, la, lb string) {
	al := strings.Split(a, "\n")
	bl := strings.Split(b, "\n")
	n := len(al)
	if len(bl) < n {
		n = len(bl)
	}
	i := 0
	for i < n && al[i] == bl[i] {
		i++
	}
	get := func(l []string, i int) string {
		if i < len(l) {
			return strings.TrimSpace(l[i])
		}
		return "<end>"
	}
	// attribute path: walk back collecting lines with smaller indentation
	indent := func(s string) int { return len(s) - len(strings.TrimLeft(s, " ")) }
	var parts []string
	if i < len(al) {
		cur := indent(al[i])
		parts = append(parts, fieldOf(al[i]))
		for j := i - 1; j >= 0 && cur > 0; j-- {
			if ind := indent(al[j]); ind < cur {
				cur = ind
				parts = append(parts, fieldOf(al[j]))
			}
		}
	}
	for l, r := 0, len(parts)-1; l < r; l, r = l+1, r-1 {
		parts[l], parts[r] = parts[r], parts[l]
	}
	// drop element values from the path to keep signatures stable
	return strings.Join(parts, "/"), get(al, i), get(bl, i)
}

func fieldOf(line string) string {
	s := strings.TrimSpace(line)
	if i := strings.Index(s, ": "); i > 0 && !strings.ContainsAny(s[:i], " \"{") {
		return s[:i]
	}
	if i := strings.Index(s, " => "); i > 0 {
		return "[" + s[:i] + "]"
	}
	if i := strings.IndexAny(s, "{ "); i > 0 {
		return s[:i]
	}
	return s
}
