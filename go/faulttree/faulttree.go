// Package faulttree is the simulated data tree: an in-memory implementation of
// xpath.Entry owned by the simulator. Every call is numbered and appended to a
// request trace; a fault plan decides per call number whether the call succeeds
// or returns an error carrying a unique sentinel.
//
// Only well-behaved failure is injected: a failing call returns a nil result
// and a non-nil error.
package faulttree

import (
	"context"
	"fmt"
	"math"
	"runtime"
	"sort"
	"strings"

	sdcpb "github.com/sdcio/sdc-protos/sdcpb"
	"github.com/sdcio/yang-parser/xpath"

	"verif/tape"
)

type Kind int

const (
	Container Kind = iota
	ListEntry
	Leaf
	LeafList
	LeafRef
)

type ValKind int

const (
	VLiteral ValKind = iota
	VNumber
	VBool
)

type Node struct {
	tree     *Tree
	Name     string
	Keys     map[string]string
	Kind     Kind
	VK       ValKind
	Lit      string
	Num      float64
	B        bool
	List     []string // leaf-list values
	Parent   *Node
	Children []*Node
	Target   *Node // leafref target (may be nil = dangling)
	path     *sdcpb.Path
	pathSum  string
	datums   []xpath.Datum // tree-owned leaf-list value
	id       int
}

// SimError is the error type the tree returns: Sentinel is unique per (tree, call).
type SimError struct {
	Blank    bool // the error's text is empty or blanks (a tree may do that); it cannot carry a sentinel
	Sentinel string
	Injected bool
	Method   string
	Call     int
}

func (e *SimError) Error() string { return e.Sentinel }

type Call struct {
	N      int
	Method string
	Recv   string
	Arg    string
	Site   string // library function that made the call
	Failed bool
	Inj    bool
}

// Tree is one simulated data tree. After Generate it is immutable (apart from
// the tree-owned path objects a careless caller may scribble on, which is what
// PathsIntact detects); everything a run against it changes lives in a Run.
type Tree struct {
	Root     *Node
	Nodes    []*Node
	Tag      string // goes into sentinels so that two trees never share one
	OwnPaths bool   // GetSdcpbPath returns the node's own object (true) or a fresh copy
	*Run            // the default run (single-goroutine worlds use only this one)
}

// Run is the state of one machine run against a tree: the numbered request
// trace and the fault plan. Several runs (one per simulated client) can go on
// against one tree at the same time; each is used by one goroutine only.
type Run struct {
	Tag       string
	Calls     []Call
	FailAt    map[int]bool // call numbers (1-based) that fail
	FailProb  int          // per-mille probability drawn from FaultTape for each call
	FaultTape *tape.Tape
	CancelAt  int // call number before which ctx is cancelled (BreadthSearch honours it)
	Cancel    context.CancelFunc
	ErrShape  int                 // what accompanies an injected error: 0 nil result, 1 a usable non-nil result, 2 a typed nil pointer
	ErrText   int                 // text of injected errors: 0 unique sentinel, 1 "", 2 blanks, 3 sentinel + newline
	ErrType   int                 // dynamic type of injected errors: 0 pointer to struct, 1 struct value with a slice field (not comparable), 2 slice type (not comparable), 3 wrapped with %w
	Yield     func(method string) // scheduler hook (C06); nil otherwise
	Errors    []*SimError
	NoSites   bool
}

func (t *Run) Reset() {
	t.Calls = t.Calls[:0]
	t.FailAt = nil
	t.FailProb = 0
	t.FaultTape = nil
	t.CancelAt = 0
	t.Cancel = nil
	t.Errors = nil
	t.ErrText = 0
	t.ErrShape = 0
	t.ErrType = 0
}

// View is a node seen through a run: the xpath.Entry handed to the machine.
type View struct {
	*Node
	R *Run
}

// Entry returns the node as an xpath.Entry bound to run r (nil: the tree's default run).
func (n *Node) Entry(r *Run) *View {
	if r == nil {
		r = n.tree.Run
	}
	return &View{Node: n, R: r}
}

// NewRun makes an independent run context for this tree.
func (t *Tree) NewRun(tag string) *Run { return &Run{Tag: t.Tag + tag} }

var names = []string{"a", "b", "c", "if", "name", "mtu", "x", "y", "k", "v"}
var lits = []string{"", "a", "b", "eth0", "1", "42", "-3.5", "true", "x y", "0", "NaN", "é", "a]b", "it's", "\xff\xfe", "100%", "a\nb"}

// Generate draws a small tree from the tape.
func Generate(t *tape.Tape, tag string) *Tree {
	tr := &Tree{Tag: tag, OwnPaths: true, Run: &Run{Tag: tag}}
	root := &Node{tree: tr, Name: "", Kind: Container}
	tr.Root = root
	tr.add(root)
	budget := 4 + t.Draw(14)
	var grow func(n *Node, depth int)
	grow = func(n *Node, depth int) {
		kids := 1 + t.Draw(4)
		for i := 0; i < kids && budget > 0; i++ {
			budget--
			c := &Node{tree: tr, Parent: n, Name: names[t.Draw(len(names))]}
			switch t.Pick(3, 3, 4, 2, 2) {
			case 0:
				c.Kind = Container
			case 1:
				c.Kind = ListEntry
				nk := 1 + t.Draw(2)
				c.Keys = map[string]string{}
				for k := 0; k < nk; k++ {
					c.Keys[[]string{"name", "k", "id"}[t.Draw(3)]] = lits[1+t.Draw(len(lits)-1)]
				}
			case 2:
				c.Kind = Leaf
				tr.value(t, c)
			case 3:
				c.Kind = LeafList
				for k := t.Draw(4); k > 0; k-- {
					c.List = append(c.List, lits[t.Draw(len(lits))])
				}
			case 4:
				c.Kind = LeafRef
				tr.value(t, c)
			}
			n.Children = append(n.Children, c)
			tr.add(c)
			if (c.Kind == Container || c.Kind == ListEntry) && depth < 5 && t.Draw(3) > 0 {
				grow(c, depth+1)
			}
		}
	}
	grow(root, 0)
	// leafref targets
	for _, n := range tr.Nodes {
		if n.Kind == LeafRef {
			if t.Draw(5) > 0 {
				n.Target = tr.Nodes[t.Draw(len(tr.Nodes))]
			}
		}
	}
	for _, n := range tr.Nodes {
		n.path = n.buildPath()
		n.pathSum = PathString(n.path)
		n.buildDatums()
	}
	return tr
}

// buildDatums creates the tree-owned value slice of a leaf-list (at generation
// time: the tree is immutable while clients run against it).
func (n *Node) buildDatums() {
	n.datums = nil
	if n.Kind == LeafList {
		n.datums = make([]xpath.Datum, 0, len(n.List))
		for _, s := range n.List {
			n.datums = append(n.datums, xpath.NewLiteralDatum(s))
		}
	}
}

func (tr *Tree) value(t *tape.Tape, c *Node) {
	switch t.Pick(5, 3, 1) {
	case 0:
		c.VK = VLiteral
		c.Lit = lits[t.Draw(len(lits))]
	case 1:
		c.VK = VNumber
		c.Num = []float64{0, 1, 2, -1, 42, 1.5, 1e9, math.NaN(), math.Inf(1), math.Inf(-1), -0.0, 1e308}[t.Draw(12)]
	case 2:
		c.VK = VBool
		c.B = t.Coin()
	}
}

func (tr *Tree) add(n *Node) {
	n.id = len(tr.Nodes)
	tr.Nodes = append(tr.Nodes, n)
}

func (n *Node) buildPath() *sdcpb.Path {
	var chain []*Node
	for x := n; x != nil && x.Parent != nil; x = x.Parent {
		chain = append(chain, x)
	}
	p := &sdcpb.Path{IsRootBased: true}
	for i := len(chain) - 1; i >= 0; i-- {
		var keys map[string]string
		if len(chain[i].Keys) > 0 {
			keys = map[string]string{}
			for _, k := range sortedKeys(chain[i].Keys) {
				keys[k] = chain[i].Keys[k]
			}
		}
		p.Elem = append(p.Elem, sdcpb.NewPathElem(chain[i].Name, keys))
	}
	return p
}

func sortedKeys(m map[string]string) []string {
	ks := make([]string, 0, len(m))
	for k := range m {
		ks = append(ks, k)
	}
	sort.Strings(ks)
	return ks
}

// PathString renders a path canonically (keys sorted).
func PathString(p *sdcpb.Path) string {
	if p == nil {
		return "<nil>"
	}
	var b strings.Builder
	if p.IsRootBased {
		b.WriteString("/")
	} else {
		b.WriteString("./")
	}
	for i, e := range p.Elem {
		if i > 0 {
			b.WriteString("/")
		}
		if e == nil {
			b.WriteString("<nil-elem>")
			continue
		}
		b.WriteString(e.Name)
		for _, k := range sortedKeys(e.Key) {
			fmt.Fprintf(&b, "[%s=%q]", k, e.Key[k])
		}
	}
	return b.String()
}

// PathsIntact checks that no tree-owned path object was modified by a caller.
func (tr *Tree) PathsIntact() (bool, string) {
	for _, n := range tr.Nodes {
		if s := PathString(n.path); s != n.pathSum {
			return false, fmt.Sprintf("path of node %d was %s, now %s", n.id, n.pathSum, s)
		}
	}
	return true, ""
}

// ValuesIntact checks that no tree-owned leaf-list value slice was modified by a caller.
func (tr *Tree) ValuesIntact() (bool, string) {
	for _, n := range tr.Nodes {
		if n.datums == nil {
			continue
		}
		if len(n.datums) != len(n.List) {
			return false, fmt.Sprintf("leaf-list value of %s has %d elements, had %d", n.pathSum, len(n.datums), len(n.List))
		}
		for i, d := range n.datums {
			if d == nil || d.Literal("check") != n.List[i] {
				return false, fmt.Sprintf("leaf-list value of %s changed at index %d", n.pathSum, i)
			}
		}
	}
	return true, ""
}

// RestorePaths repairs tree-owned paths after a detected mutation so that later
// cases in the same process start from a clean tree.
func (tr *Tree) RestorePaths() {
	for _, n := range tr.Nodes {
		n.path = n.buildPath()
		n.buildDatums()
	}
}

func (n *Node) String() string { return n.pathSum }

// callSite finds the library function that called into the tree.
func callSite() string {
	var pcs [24]uintptr
	k := runtime.Callers(3, pcs[:])
	fr := runtime.CallersFrames(pcs[:k])
	for {
		f, more := fr.Next()
		if strings.HasPrefix(f.Function, "github.com/sdcio/yang-parser/") {
			return strings.TrimPrefix(f.Function, "github.com/sdcio/yang-parser/")
		}
		if !more {
			break
		}
	}
	return "?"
}

// enter numbers the call, records it and decides whether it fails.
func (v *View) enter(method, arg string) error {
	n := v.Node
	tr := v.R
	if tr.Yield != nil {
		tr.Yield(method)
	}
	c := Call{N: len(tr.Calls) + 1, Method: method, Recv: n.pathSum, Arg: arg}
	if !tr.NoSites {
		c.Site = callSite()
	}
	fail := tr.FailAt[c.N]
	if !fail && tr.FailProb > 0 && tr.FaultTape != nil {
		fail = tr.FaultTape.Draw(1000) < tr.FailProb
	}
	if tr.CancelAt > 0 && c.N >= tr.CancelAt && tr.Cancel != nil {
		tr.Cancel()
	}
	var err error
	if fail {
		c.Failed, c.Inj = true, true
		e := &SimError{Sentinel: fmt.Sprintf("SIMFAULT%%d-%s-%d-%s", tr.Tag, c.N, method), Injected: true, Method: method, Call: c.N}
		switch tr.ErrText {
		case 1:
			e.Sentinel, e.Blank = "", true
		case 2:
			e.Sentinel, e.Blank = "  ", true
		case 3:
			e.Sentinel += "\n"
		}
		tr.Errors = append(tr.Errors, e)
		err = e
		// same text, another dynamic type: nothing says that an error is a pointer, or comparable with ==
		switch tr.ErrType {
		case 1:
			err = simErrorValue{e, []string{method}}
		case 2:
			err = simErrorList{e}
		case 3:
			err = fmt.Errorf("%w", e)
		}
	}
	tr.Calls = append(tr.Calls, c)
	return err
}

type simErrorValue struct {
	*SimError
	Path []string
}

type simErrorList []*SimError

func (l simErrorList) Error() string { return l[0].Error() }

// natural failure (not found etc.): also a tree-reported error with a sentinel.
func (v *View) natural(method, why string) error {
	tr := v.R
	c := &tr.Calls[len(tr.Calls)-1]
	c.Failed = true
	e := &SimError{Sentinel: fmt.Sprintf("SIMTREE%%s-%s-%d-%s-%s", tr.Tag, c.N, method, why), Method: method, Call: c.N}
	tr.Errors = append(tr.Errors, e)
	return e
}

func (n *Node) resolve(path *sdcpb.Path) (*Node, string) {
	cur := n
	if path == nil {
		return nil, "nilpath"
	}
	if path.IsRootBased {
		cur = n.tree.Root
	}
	for _, e := range path.Elem {
		if e == nil {
			return nil, "nilelem"
		}
		switch e.Name {
		case "..":
			if cur.Parent == nil {
				return nil, "aboveroot"
			}
			cur = cur.Parent
		case ".":
		default:
			var hit *Node
			for _, c := range cur.Children {
				if c.Name != e.Name {
					continue
				}
				ok := true
				for k, v := range e.Key {
					if c.Keys[k] != v {
						ok = false
						break
					}
				}
				if ok {
					hit = c
					break
				}
			}
			if hit == nil {
				return nil, "notfound"
			}
			cur = hit
		}
	}
	return cur, ""
}

// withErr decides what a failing call hands back next to its error. Go code
// must look at the error first; a tree that also returns its closest entry, a
// last-known value or a nil *T wrapped in the interface is within the contract.
func (v *View) withErr(err error) (xpath.Entry, error) {
	switch v.R.ErrShape {
	case 1:
		return &View{Node: v.Node, R: v.R}, err
	case 2:
		var none *View
		return none, err
	}
	return nil, err
}

func (v *View) Navigate(path *sdcpb.Path) (xpath.Entry, error) {
	if err := v.enter("Navigate", PathString(path)); err != nil {
		return v.withErr(err)
	}
	r, why := v.Node.resolve(path)
	if r == nil {
		return nil, v.natural("Navigate", why)
	}
	return &View{Node: r, R: v.R}, nil
}

func (v *View) GetValue() (xpath.Datum, error) {
	if err := v.enter("GetValue", ""); err != nil {
		if v.R.ErrShape == 1 {
			return v.Node.datum(), err // e.g. a last-known value
		}
		return nil, err
	}
	return v.Node.datum(), nil
}

func scalar(vk ValKind, lit string, num float64, b bool) xpath.Datum {
	switch vk {
	case VNumber:
		return xpath.NewNumDatum(num)
	case VBool:
		return xpath.NewBoolDatum(b)
	}
	return xpath.NewLiteralDatum(lit)
}

func (n *Node) datum() xpath.Datum {
	switch n.Kind {
	case Leaf, LeafRef:
		return scalar(n.VK, n.Lit, n.Num, n.B)
	case LeafList:
		// the tree hands out its own slice every time (as a tree with a value cache does);
		// ValuesIntact() notices a caller that reorders, truncates or overwrites it
		return xpath.NewDatumSliceDatum(n.datums)
	}
	return xpath.NewNodesetDatum(nil)
}

func (v *View) Copy() xpath.Entry {
	if v.R.Yield != nil {
		v.R.Yield("Copy")
	}
	return &View{Node: v.Node, R: v.R}
}

func (v *View) FollowLeafRef() (xpath.Entry, error) {
	n := v.Node
	if err := v.enter("FollowLeafRef", ""); err != nil {
		return v.withErr(err)
	}
	if n.Kind != LeafRef {
		return nil, v.natural("FollowLeafRef", "notleafref")
	}
	if n.Target == nil {
		return nil, v.natural("FollowLeafRef", "dangling")
	}
	return &View{Node: n.Target, R: v.R}, nil
}

func (v *View) GetSdcpbPath() *sdcpb.Path { return v.Node.GetSdcpbPath() }

func (n *Node) GetSdcpbPath() *sdcpb.Path {
	if n.tree.OwnPaths {
		return n.path
	}
	return n.path.DeepCopy()
}

func (v *View) BreadthSearch(ctx context.Context, path *sdcpb.Path) ([]xpath.Entry, error) {
	n := v.Node
	if err := v.enter("BreadthSearch", PathString(path)); err != nil {
		return nil, err
	}
	if ctx != nil && ctx.Err() != nil {
		return nil, v.natural("BreadthSearch", "ctxcancelled")
	}
	start := n
	if path != nil && path.IsRootBased {
		start = n.tree.Root
	}
	cur := []*Node{start}
	if path != nil {
		for _, e := range path.Elem {
			var next []*Node
			for _, c := range cur {
				switch e.Name {
				case "..":
					if c.Parent != nil {
						next = append(next, c.Parent)
					}
				case ".":
					next = append(next, c)
				default:
					for _, ch := range c.Children {
						if ch.Name != e.Name {
							continue
						}
						ok := true
						for k, v := range e.Key {
							if ch.Keys[k] != v {
								ok = false
							}
						}
						if ok {
							next = append(next, ch)
						}
					}
				}
			}
			cur = next
		}
	}
	out := make([]xpath.Entry, 0, len(cur))
	for _, c := range cur {
		out = append(out, &View{Node: c, R: v.R})
	}
	return out, nil
}

// Trace renders the request trace canonically.
func (tr *Run) Trace() string {
	var b strings.Builder
	for _, c := range tr.Calls {
		fmt.Fprintf(&b, "%d %s %s(%s)", c.N, c.Recv, c.Method, c.Arg)
		if c.Failed {
			b.WriteString(" !")
		}
		b.WriteString("\n")
	}
	return b.String()
}

// Describe renders the tree for replay files and samples.
func (tr *Tree) Describe() string {
	var b strings.Builder
	var walk func(n *Node, ind string)
	walk = func(n *Node, ind string) {
		if n.Parent != nil {
			fmt.Fprintf(&b, "%s%s", ind, n.Name)
			for _, k := range sortedKeys(n.Keys) {
				fmt.Fprintf(&b, "[%s=%q]", k, n.Keys[k])
			}
			switch n.Kind {
			case Leaf:
				fmt.Fprintf(&b, " = %s", describeVal(n))
			case LeafRef:
				tgt := "<dangling>"
				if n.Target != nil {
					tgt = n.Target.pathSum
				}
				fmt.Fprintf(&b, " = %s -> %s", describeVal(n), tgt)
			case LeafList:
				fmt.Fprintf(&b, " = %q", n.List)
			}
			b.WriteString("\n")
			ind += "  "
		}
		for _, c := range n.Children {
			walk(c, ind)
		}
	}
	walk(tr.Root, "")
	return b.String()
}

func describeVal(n *Node) string {
	switch n.VK {
	case VNumber:
		return fmt.Sprintf("%v", n.Num)
	case VBool:
		return fmt.Sprintf("%v", n.B)
	}
	return fmt.Sprintf("%q", n.Lit)
}
